#!/usr/bin/env bash
# Run a check against a seeded change WITHOUT touching /repo: the files the patch touches are copied,
# patched in a scratch directory and injected through the build overlay.
#   tools/seedrun.sh <patch.diff> <Cxx> [quick|thorough] [extra args]
set -eu
patch_file="$1"; prop="$2"; shift 2
tmp=$(mktemp -d /verif/.work/seed.XXXXXX)
trap 'rm -rf "$tmp"' EXIT
repl=""
for f in $(grep '^+++ b/' "$patch_file" | sed 's|^+++ b/||'); do
  mkdir -p "$tmp/$(dirname "$f")"
  cp "/repo/$f" "$tmp/$f"
  repl="$repl REPL=$f=$tmp/$f"
done
patch -s -p1 -d "$tmp" < "$patch_file"
mkdir -p /verif/.work/seed-evidence
VERIF_EVIDENCE_DIR=/verif/.work/seed-evidence VERIF_REPL="$repl" /verif/check "$prop" "$@"
