#!/usr/bin/env python3
"""Generate the go build overlay that injects /verif harness code into the go-f3 module at /repo
without touching /repo: harness mains -> /repo/verifharness/<name>/, shared lib -> /repo/internal/verif/<pkg>/,
in-package accessors (build tag verif) -> /repo/<pkg>/zz_verif_*.go.  Extra replacements (mutations /
candidate fixes) can be passed as REPL=<repo-relative-path>=<file> arguments."""
import json, os, sys
V = os.environ.get("VERIF_DIR", "/verif")
R = os.environ.get("VERIF_REPO", "/repo")
ov = {}
for name in sorted(os.listdir(f"{V}/harness")):
    d = f"{V}/harness/{name}"
    if not os.path.isdir(d): continue
    for f in sorted(os.listdir(d)):
        if f.endswith(".go"):
            ov[f"{R}/verifharness/{name}/{f}"] = f"{d}/{f}"
for name in sorted(os.listdir(f"{V}/lib")):
    d = f"{V}/lib/{name}"
    for f in sorted(os.listdir(d)):
        if f.endswith(".go"):
            ov[f"{R}/internal/verif/{name}/{f}"] = f"{d}/{f}"
for root, dirs, files in os.walk(f"{V}/inpkg"):
    rel = os.path.relpath(root, f"{V}/inpkg")
    for f in sorted(files):
        if f.endswith(".go"):
            tgt = f"{R}/{f}" if rel == "." else f"{R}/{rel}/{f}"
            ov[tgt] = f"{root}/{f}"
for a in sys.argv[1:]:
    if a.startswith("REPL="):
        _, p, f = a.split("=", 2)
        ov[f"{R}/{p}"] = f
out = os.environ.get("VERIF_OVERLAY_OUT", f"{V}/.work/overlay.json")
os.makedirs(os.path.dirname(out), exist_ok=True)
tmp = out + ".%d" % os.getpid()
json.dump({"Replace": ov}, open(tmp, "w"), indent=1)
os.replace(tmp, out)
print(out)
