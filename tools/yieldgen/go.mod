module yieldgen

go 1.23
