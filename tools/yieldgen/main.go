// yieldgen rewrites Go source files for engine E2: the "sync" import is redirected to the vsync shim and a
// scheduling point is inserted before every statement of every function body.
//   yieldgen <out-dir> <repo-relative-path>=<source-file> ...
// The rewritten copy is written to <out-dir>/<repo-relative-path>.
package main

import (
	"fmt"
	"go/ast"
	"go/parser"
	"go/printer"
	"go/token"
	"os"
	"path/filepath"
	"strconv"
	"strings"
)

const (
	vsyncPath  = "github.com/filecoin-project/go-f3/internal/verif/vsync"
	vschedPath = "github.com/filecoin-project/go-f3/internal/verif/vsched"
)

func point(fset *token.FileSet, rel string, pos token.Pos) ast.Stmt {
	line := fset.Position(pos).Line
	return &ast.ExprStmt{X: &ast.CallExpr{
		Fun:  &ast.SelectorExpr{X: ast.NewIdent("vschedpkg"), Sel: ast.NewIdent("Point")},
		Args: []ast.Expr{&ast.BasicLit{Kind: token.STRING, Value: strconv.Quote(fmt.Sprintf("%s:%d", rel, line))}},
	}}
}

// touchesShared reports whether the statement (not descending into nested blocks, which are instrumented
// on their own) mentions the method receiver, performs a channel operation, or - in plain functions - makes
// a call.  Statements that only touch locals cannot interact with other threads, so leaving out their
// scheduling point does not lose any interleaving of shared accesses.
func touchesShared(st ast.Stmt, recv string) bool {
	found := false
	var visit func(n ast.Node) bool
	visit = func(n ast.Node) bool {
		if found || n == nil {
			return false
		}
		switch x := n.(type) {
		case *ast.BlockStmt:
			return false
		case *ast.FuncLit:
			return false
		case *ast.Ident:
			if recv != "" && x.Name == recv {
				found = true
			}
		case *ast.SendStmt:
			found = true
		case *ast.UnaryExpr:
			if x.Op == token.ARROW {
				found = true
			}
		case *ast.CallExpr:
			if recv == "" {
				found = true
			}
		case *ast.SelectStmt, *ast.GoStmt, *ast.DeferStmt:
			found = true
		}
		return !found
	}
	switch x := st.(type) {
	case *ast.IfStmt:
		ast.Inspect(x.Init, visit)
		ast.Inspect(x.Cond, visit)
	case *ast.ForStmt:
		ast.Inspect(x.Init, visit)
		ast.Inspect(x.Cond, visit)
		ast.Inspect(x.Post, visit)
	case *ast.RangeStmt:
		ast.Inspect(x.X, visit)
	case *ast.SwitchStmt:
		ast.Inspect(x.Init, visit)
		ast.Inspect(x.Tag, visit)
	default:
		ast.Inspect(st, visit)
	}
	return found
}

func instrument(fset *token.FileSet, rel string, list []ast.Stmt, recv string) []ast.Stmt {
	var out []ast.Stmt
	for _, st := range list {
		switch st.(type) {
		case *ast.CaseClause, *ast.CommClause:
			out = append(out, st) // the body of a switch / select: clauses are instrumented separately
			continue
		}
		if touchesShared(st, recv) {
			out = append(out, point(fset, rel, st.Pos()))
		}
		out = append(out, st)
	}
	return out
}

func main() {
	if len(os.Args) < 3 {
		fmt.Fprintln(os.Stderr, "usage: yieldgen <out-dir> <rel>=<src> ...")
		os.Exit(2)
	}
	outDir := os.Args[1]
	for _, arg := range os.Args[2:] {
		rel, src, ok := strings.Cut(arg, "=")
		if !ok {
			fmt.Fprintln(os.Stderr, "bad argument", arg)
			os.Exit(2)
		}
		fset := token.NewFileSet()
		f, err := parser.ParseFile(fset, src, nil, parser.ParseComments)
		if err != nil {
			fmt.Fprintln(os.Stderr, err)
			os.Exit(1)
		}
		for _, imp := range f.Imports {
			if imp.Path.Value == `"sync"` {
				imp.Path.Value = strconv.Quote(vsyncPath)
				imp.Name = ast.NewIdent("sync")
			}
		}
		for _, d := range f.Decls {
			fd, ok := d.(*ast.FuncDecl)
			if !ok || fd.Body == nil {
				continue
			}
			recv := ""
			if fd.Recv != nil && len(fd.Recv.List) > 0 && len(fd.Recv.List[0].Names) > 0 {
				recv = fd.Recv.List[0].Names[0].Name
			}
			ast.Inspect(fd.Body, func(n ast.Node) bool {
				switch x := n.(type) {
				case *ast.BlockStmt:
					x.List = instrument(fset, rel, x.List, recv)
				case *ast.CaseClause:
					x.Body = instrument(fset, rel, x.Body, recv)
				case *ast.CommClause:
					x.Body = instrument(fset, rel, x.Body, recv)
				}
				return true
			})
		}
		// add the scheduler import
		f.Decls = append([]ast.Decl{&ast.GenDecl{Tok: token.IMPORT, Specs: []ast.Spec{&ast.ImportSpec{
			Name: ast.NewIdent("vschedpkg"), Path: &ast.BasicLit{Kind: token.STRING, Value: strconv.Quote(vschedPath)}}}}}, f.Decls...)
		dst := filepath.Join(outDir, rel)
		if err := os.MkdirAll(filepath.Dir(dst), 0o755); err != nil {
			panic(err)
		}
		w, err := os.Create(dst)
		if err != nil {
			panic(err)
		}
		// comments are dropped on purpose: inserted statements have no positions and would scramble them
		f.Comments = nil
		if err := printer.Fprint(w, token.NewFileSet(), f); err != nil {
			panic(err)
		}
		w.Close()
	}
}
