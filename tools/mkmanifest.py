#!/usr/bin/env python3
"""Regenerates /verif/MANIFEST.json from the table below (single source of truth for the check registry)."""
import json, os

V = "/verif"

# id -> (built?, engine, category, technique, text, note, design_ref)
CHECKS = {
 "C01": (True, "gpbftmc", "model_checking",
  "explicit-state deviation-bounded exploration of real gpbft.Participant objects (state-key pruned DFS, Byzantine message generator)",
  "All executions of 3-4 real participants (equal, weighted and dust power tables; forked / prefixed inputs; 1-2 instances) with at most K deviations (delay, hold, drop, duplicate, early timer, one Byzantine message incl. equivocation with justifications assembled from observed votes) from the synchronous schedule, and around lagging / late-starting / partitioned / slow-link base schedules, are enumerated; on every reported decision all honest decisions of the instance must be equal. Byzantine plans deliver through the two-stage (partial, then full) validation route, the others one-shot. In every expanded state the real validators are additionally probed with forged messages (spoofed sender, junk / under-powered / mismatched certificate, sender-swapped replay; twice, both routes); a forgery that a validator accepts becomes a free Byzantine action (at most 2 per execution) whose consequences the same monitors judge. A coverage statement over schedules and fault sequences, which is what agreement quantifies over.",
  "fake signing backend (aggregates bound to the key set); N<=6, one Byzantine identity < 1/3; rounds <= scenario bound; K as reported in evidence; state key abstracts justifications to (phase,round,value); probe verdicts are memoised per (scenario, target, target progress, forgery content)",
  "DESIGN §2.3, §3 C01"),
 "C02": (True, "gpbftmc", "model_checking",
  "explicit-state deviation-bounded exploration of real gpbft.Participant objects with validity monitor",
  "Same executions as C01 with inputs ranging over forked / prefixed / base-only chains and a Byzantine proposer of foreign and foreign-base chains; every honest decision must be non-empty, start at the base the participant entered with and be a prefix of an honest proposal made so far; the 0-deviation run with unanimous inputs must decide that input.",
  "as C01", "DESIGN §3 C02"),
 "C03": (True, "gpbftmc", "model_checking",
  "explicit-state deviation-bounded exploration; every decision checked by an independent proof verifier and certs.ValidateFinalityCertificates",
  "Every decision of every explored execution (incl. weighted and zero-scaled-power tables) is checked: instance/round 0/DECIDE/supplemental data, distinct in-range non-zero-power signers, strong quorum by exact arithmetic, aggregate verifies over the decided value, and the derived finality certificate validates on a fresh node. Host half (auxiliary pass, folded into the evidence): every history of <=6 (8) decisions finalizing 0-2 tipsets each, x committee look-back {2,3,5} x initial instance {0,7}, over a model EC whose power table changes every epoch, goes through the production gpbftHost.saveDecision; the certificate must carry the delta between the two committees, chain-validate on an independent validator and be the store's latest.",
  "as C01; host half: model EC backend, in-memory certificate store, decisions signed by the minimal quorum", "DESIGN §3 C03"),
 "C06": (True, "gpbftmc", "model_checking",
  "bounded-liveness exploration: all <=K pre-stabilisation deviations followed by the synchronous schedule on real participants",
  "Every execution = at most K pre-stabilisation deviations (no honest-to-honest loss) followed by the synchronous default schedule; all started honest participants must decide before any honest round exceeds R+6 (no Byzantine message) / R+40, no execution may go quiescent undecided, and none may stall (no participant changing round or step during 1500 consecutive timer/delivery events with nothing withheld). Base schedules include lagging, late-starting (everything queued at start) and slow-link ones; Byzantine and policy plans deliver through the two-stage validation route.",
  "post-stabilisation behaviour = zero-latency synchronous schedule; as C01 otherwise", "DESIGN §3 C06"),
 "C07": (True, "gpbftmc", "model_checking",
  "explicit-state deviation-bounded exploration with a per-participant reference tally of delivered votes (rules 1-8)",
  "Every broadcast and every step of every explored execution is checked against a boring reference tally of what was delivered to that participant: one message per slot, peer-acceptable, monotone progress, no internal error/panic, PREPARE(0) = longest quorum-backed input prefix, best-ticket CONVERGE prefix adopted, no COMMIT bottom with/ before a possible PREPARE quorum, votes only for own-input prefixes or proven values; an error out of ReceiveAlarm (incl. a late-binding validation error escaping the queue drain) is an internal error.",
  "as C01; monitor state is part of the pruning key", "DESIGN §3 C07"),
 "C08": (True, "quorumenum", "exploration",
  "exhaustive enumeration of the finite quorum-arithmetic domain against exact integer/rational arithmetic",
  "All 2.1e9 (whole<=65535, part<=whole) pairs for the strong/weak predicates and quorum intersection, all small and all boundary (whole, support, other) triples through a real vote tally, int64 bands up to 2^61, and every power table over a magnitude alphabet (n<=3, thorough 4) with every signer subset through certificate validator, message validator and tally, which must agree with 3*sum >= 2*total. The domain is finite, so enumeration decides it.",
  "exact reference arithmetic in int64 below 2^61 and math/big; fake signing backend", "DESIGN §3 C08"),
 "C15": (True, "inputsenum", "exploration",
  "bounded-exhaustive enumeration of EC block trees, settings and certificate histories against an independent model of proposal/committee derivation",
  "Every EC block tree over <=6 (thorough 7) epochs with null rounds, one fork at every point, heads and bases on either branch, x look-back/length/clock settings, plus long linear chains and all honest certificate histories up to length 8 (12): the node's real consensus-inputs component must produce a proposal that starts at the finalized head, follows the head's parent chain, respects the maxima, collapses on divergence, carries EC's power-table CIDs and commits to the next committee; committees must be the table and beacon at the head finalized look-back instances earlier, independent of the EC head.",
  "model ec.Backend (explicit tree) and in-memory cert store; the unexported component is reached through an injected accessor", "DESIGN §3 C15"),
 "C19": (True, "inputsenum", "exploration",
  "bounded-exhaustive enumeration of forged decisions through the simulator host interface and of certchain committees against the node rule",
  "Every forged decision shape and every signer subset of 3/4-member tables is reported through the simulator's own host interface by a custom adversary; sim.Run must fail exactly when the decision is not a valid proof, and when an honest decision record disagrees. certchain committees of every instance of generated chains are compared with the node's rule and the node's real consensus-inputs component over the same EC and certificates.",
  "sim default latency model; fake signing; model EC backend", "DESIGN §3 C19"),
 "C09": (True, "certstoremc", "model_checking",
  "explicit-state BFS over operation histories of the real certstore.Store against an in-memory reference model",
  "Breadth-first search over all operation sequences (create/open variants, 13 kinds of put incl. every delta shape and every rejection class, a valid put whose 1st / 2nd / 3rd datastore write fails with an injected error, subscribe/receive/unsubscribe) to depth 6 (thorough 8), deduplicated on reference+subscription state; after every step every observable (Get, GetRange, Latest, GetPowerTable for first-1..latest+2, subscriber channels) is compared with a boring reference store; checkpoints are crossed densely (frequency 3) and once at the real 1440 boundary.",
  "the concurrent-readers/writers clause is decided by the interleaving pass (engine E2: two writers, a reader and a subscriber on the source-instrumented store, all schedules with <=2 preemptions, plus a free-running race-detector pass); in-memory datastore; checkpoint frequency lowered via injected accessor", "DESIGN §3 C09"),
 "C10": (True, "certstoremc", "fault_enumeration",
  "exhaustive crash-point enumeration over the recorded datastore write log of every operation of every history",
  "For every history and every final operation (create, put incl. checkpoint puts, wipe) every prefix of the operation's datastore Put/Delete log is materialised into a fresh datastore and reopened with each open variant; the observable state must equal the reference before or after the operation, the operation must be repeatable, the recovered store must keep working across further puts and another restart, and an interrupted wipe must be completed leaving no key behind.",
  "crash = stop between two datastore writes, single writes atomic; in-memory datastore", "DESIGN §3 C10"),
 "C17": (True, "certstoremc", "exploration",
  "bounded-exhaustive enumeration of stores, export end points and snapshot corruptions (every truncation, every block-level edit)",
  "All stores of a grid (first instance, length, delta patterns, checkpoint frequency 3 plus one 1445-certificate store at the production frequency and one store with 8000 members) are exported at every end point and re-imported: the imported store must be observationally identical and the digest must be the blake2b-256 of the bytes; every byte truncation, dropped/duplicated/swapped/surplus block, empty block at every position (alone or followed by surplus / repeat / garbage), header or manifest disagreement (incl. a permuted or duplicated header table against a pinning manifest) and altered (also compensated) delta must be rejected without panic.",
  "in-memory datastores; snapshots from the repository's exporter", "DESIGN §3 C17"),
 "C04": (True, "certsenum", "exploration",
  "bounded-exhaustive enumeration of corrupted certificate chains and of a complete small power-table universe against independent reference predicates",
  "Honest certificate chains over evolving tables (three histories) and every single and every pair of ~45 corruption kinds at every position (both re-signed by a quorum and raw), every signer subset with a valid aggregate, and cross-history splices are validated by certs.ValidateFinalityCertificates and by an independent reference predicate: accept iff reference accepts, and on rejection the reported next instance, chain and table describe exactly the valid prefix. All 343x343 ordered table pairs and all near-valid deltas over ids{1,2,3} x power{absent,1,2,2^70} x key{k,k'}: Apply(Make(a,b),a)=b canonically, every accepted delta is the canonical one, inputs never modified.",
  "fake signing backend; reference predicates written from the statement", "DESIGN §3 C04"),
 "C05": (True, "valenum", "model_checking",
  "exhaustive enumeration of the message space (valid shapes and all <=2-field deviations) x progress states, plus explicit-state exploration of all cache histories of length <=2 on the production validator",
  "One valid message per (step, round, value, justification kind) and every single and pair of field deviations (5.7k messages) are validated at 20 progress states by the production caching validator; verdicts are compared with an independent validity predicate and the statement's relevance rule (sound, complete when relevant, never branded invalid when valid). History independence: for every message, every sequence of <=2 earlier full/partial validations of its twins or a group eviction (cache sizes 64 and 2) must leave the verdict unchanged.",
  "fake signing backend; fixed committee incl. a zero-scaled-power member; concurrent validation: interleaving pass (engine E2) over the source-instrumented caches and the production progress cell — two validators and an evicting / progress-announcing thread, all schedules with <=2 preemptions, plus a free-running race-detector pass", "DESIGN §3 C05"),
 "C13": (True, "valenum", "model_checking",
  "exhaustive enumeration of messages x announced keys x completing chains through the two validation paths, plus cache-history exploration shared between them",
  "For every message of the C05 space, three announced keys (matching, zero, other) and four completing chains (original, other, bottom, malformed), with the production stripper, with the justification left as sent and with the chain left in the message: PartiallyValidate then FullyValidate accepts iff the key equals the chain's key and one-shot validation of the completed message accepts; strip then complete is the identity on valid messages; partial/full verdicts are independent of earlier validations on the same validator. Every message that passes the partial stage under its genuine key is also completed by a real, started PartialMessageManager on both of its routes (buffered until the chain is discovered; CompleteMessage with the chain already known): same verdict as one-shot validation of the completed message, and the original bytes for valid messages.",
  "as C05; completion by the production inference (injected accessor) and by the production manager over a peerless gossipsub", "DESIGN §3 C13"),
 "C11": (True, "walcrash", "fault_enumeration",
  "exhaustive enumeration of operation histories on the real WAL with every torn-write image of the final append recovered and continued",
  "All sequences over {append small/large, rotate, close, purge, reopen} up to depth 4 (thorough 5) plus long rotating histories run on the real WriteAheadLog; after every step All() must equal the reference list of acknowledged, unpurged entries (nothing else, per-file order), purge must be conservative and complete (directory listing); for every history ending in an append every byte offset of that append is materialised as a torn file, recovered, read, continued with further appends/purge and reopened again.",
  "a crash tears only the final write; directory entries survive; wall-clock file names are opaque; tmpfs-backed directory; purge running concurrently with append / rotate / read (the node's finalize goroutine vs its runner) is covered by an interleaving pass (engine E2, <=2 preemptions) plus a free-running race-detector pass; thorough tier: shortest histories first under a 40-minute budget", "DESIGN §3 C11"),
 "C12": (True, "equivmc", "model_checking",
  "explicit-state BFS over broadcast/rebroadcast/restart/crash histories on the production runner (filter -> WAL -> publish) with a synchronous wire observer",
  "Breadth-first search over histories of conflicting broadcast requests (2 instances x 2 senders x slots x 2 signatures), rebroadcast requests, finality certificates arriving (early network: up to instance 3; up to instance 6) through the node's certificate store and handled by the production finalize goroutine, clean restarts, crash-restarts from the WAL image captured at the last publish and crashes in the middle of an append, on the real newRunner/Start/BroadcastMessage/RequestRebroadcast/Stop over a real WAL directory and gossipsub topic. A pubsub default validator observes the wire synchronously inside Publish and snapshots the WAL: never two signatures per (instance, sender, round, step), never an older instance, every wire message already durable. Three searches (focused alphabet to depth 7/9; rounds 0..3 of one slot; full alphabet) plus directed histories around a log file that grows past its rotation size. The pure filter is additionally enumerated to depth 6/7 against a reference.",
  "no storage errors, single node per identity; inbound topic validator removed; opaque signatures; mock clock that never advances (the participant stays idle, the harness decides what is broadcast); the finalize goroutine is stepped through ec.Finalize of the harness's EC and the rebroadcast-store mutex; broadcast requests are for instances above the latest certificate", "DESIGN §3 C12"),
 "C16": (True, "certexmc", "model_checking",
  "exhaustive enumeration of (store, request) pairs against the real server read by a raw wire reader, and of all responder scripts up to a depth against the real poller",
  "Server: every store of length 0..5 (7) at first instance 0 and 5 x every first / limit / power-table combination incl. boundary and overflowing values is served by the real certexchange.Server over mocknet and read both by a raw stream reader (everything on the wire) and by the production client; the response must be the byte-exact store slice, at most limit certificates, none at or beyond the advertised pending instance, the right power table. Poller: every script of up to 2 (3) behaviours out of 12 Byzantine/honest responder behaviours x client/peer holdings (incl. certificates gained locally before the poll and while the request is in flight), each followed by a poll of an honest peer: the store must only gain genuine certificates, never beyond the valid in-sequence prefix sent, NextInstance must equal the store, and honest / illegal / lagging peers must be classified as such; the store gains exactly the valid prefix (no less, unless the peer reset a stream). Client: responses that start late or early, skip, repeat or go back are never handed to the caller out of sequence.",
  "mocknet; fake signing; poller driven through its public API", "DESIGN §3 C16"),
 "C20": (True, "pollmc", "model_checking",
  "exhaustive enumeration of per-tick production patterns on the production polling loop under a mock clock, with a reference predictor",
  "The real Subscriber.run goroutine is driven tick by tick under a mock clock (handshake through the gauge it records right after re-arming its timer): every sequence of 3 (4) ticks over {0,1,2,5 certificates} x {local, via peer} x request time {0, 1/4, 1 interval} plus failing peers, for three (min, initial, max) settings and 1-2 peers; a polling round must report exactly the store advance, and the wait must be the predicted interval (independent predictor fed with the true advance) extended by at most the request time and half the interval; long steady / bursty / stalled runs must settle near the production period and never pin to min or max, also with one up-to-date peer among 40 useless ones (known from the start or discovered later); the production Start with real peer discovery against a real server must keep fetching after its start context ends.",
  "mocknet + mock clock; unexported run/poll reached through an injected accessor; reference predictor mirrors predictor.go", "DESIGN §3 C20"),
 "C18": (True, "chainexmc", "model_checking",
  "explicit-state BFS over lookup / broadcast / flood / prune histories on the real chain exchange with property-level monitors",
  "Breadth-first search to depth 5 (thorough 7) over histories of lookups, own broadcasts, admitted remote broadcasts, remote broadcasts rejected for every reason in the statement, floods of capacity+1 unsolicited chains, prunes and a progress change on the real PubSubChainExchange (validator and caching routines called synchronously), deduplicated on both LRU caches in order: a lookup never returns a chain with another key (recomputed from the tipsets it holds; the caller builds a fork on every chain it is given) or an unadmitted/pruned chain, every prefix is retrievable right after admission, inadmissible broadcasts are never admitted, an asked-for chain that was admitted survives floods while the wanted capacity holds, pruning removes exactly the lower instances. The started service is also run end to end (own / remote broadcast in both orders, start context cancelled or kept).",
  "no network: validator and caching routines driven through an injected accessor; the lookup-vs-admit-vs-own-broadcast interleavings are decided by the interleaving pass (engine E2, <=2 preemptions) plus a free-running race-detector pass; mock clock", "DESIGN §3 C18"),
 "C14": (True, "encenum", "exploration",
  "bounded-exhaustive enumeration of single-field perturbations of signed payloads for every chain length, and of all truncations / small byte deviations of valid encodings of every codec type",
  "For every chain length 1..128 every single-field perturbation of every tipset and payload field (and the VRF inputs) must change the bytes to sign, pairwise; chain keys computed directly, in batch and from cached prefixes must agree for every prefix of every length; 23 wire/storage shapes at boundary sizes round-trip deterministically through CBOR and ZSTD; every truncation, every 1-byte deviation (dense) and 2-byte boundary deviations (small encodings) of each valid encoding, inflated length headers at every position (16 MiB allocation cap) and over-expanding or corrupted ZSTD frames must decode to an error or a value without panicking.",
  "the 'coverage-guided mutation' clause of the quantifier is fuzzing, a different technique: it is replaced by the exhaustive small-deviation neighbourhood of valid encodings", "DESIGN §3 C14"),
}

ALL = ["C%02d" % i for i in range(1, 21)]
REASON_PENDING = "check under construction in this session (see DESIGN.md §6 build order); not claimed until its harness is committed"

def main():
    checks, na = [], []
    for pid in ALL:
        ent = CHECKS.get(pid)
        if not ent or not ent[0]:
            na.append({"property_id": pid, "reason": (ent[5] if ent and len(ent) > 7 else REASON_PENDING)})
            continue
        built, engine, cat, tech, text, note, ref = ent[:7]
        checks.append({
            "property_id": pid,
            "quick_cmd": f"./check {pid} quick",
            "thorough_cmd": f"./check {pid} thorough",
            "evidence_file": f"/verif/evidence/{pid}.json",
            "replay_cmd_template": "./check replay {path}",
            "engine": engine,
            "level_claimed": {"category": cat, "text": text, "design_ref": ref},
            "level_note": note,
            "technique": tech,
        })
    engines = {}
    for c in checks:
        engines.setdefault(c["engine"], []).append(c["property_id"])
    man = {
        "version": 1,
        "setup_cmd": "./check setup",
        "hooks": {
            "guard": "verif (Go build tag)",
            "enable": "go build -tags verif -overlay /verif/.work/run.<pid>/overlay.json (generated per invocation by tools/mkoverlay.py) (in-package accessors and harness mains are injected from /verif/inpkg and /verif/harness; nothing is committed to /repo)",
            "baseline_off_cmd": "cd /repo && GOFLAGS=-mod=mod GOPROXY=off go test -vet=off -count=1 -timeout 25m ./...",
            "source_commits": [],
            "add_only": True,
        },
        "engines": [{"name": k, "path": f"/verif/harness/{k}", "serves_properties": v,
                     "kind_free_text": "Go harness compiled inside the go-f3 module via go build -overlay; explores the real implementation"} for k, v in sorted(engines.items())],
        "checks": checks,
        "not_applicable": na,
        "notes": "All checks: ./check <id> [quick|thorough]; they rebuild from /repo's working tree on every call. Known findings: /verif/known_findings.jsonl.",
    }
    json.dump(man, open(f"{V}/MANIFEST.json", "w"), indent=1)
    print("checks:", [c["property_id"] for c in checks], "n/a:", [n["property_id"] for n in na])

if __name__ == "__main__":
    main()
