#!/usr/bin/env python3
"""Writes /verif/seeded/<id>/<k>/meta.json from the agent's meta, my confirmation log and the detection
table below (which check catches the change, with which fingerprint)."""
import json, os, glob, re
DET = {
 # id/k : (detected_by, fingerprint or note)
 "C01/1": ("./check C01 quick", "disagreement (scenario tri-boundary, partition+echo policy, K=0); also C08 IsStrongQuorum-inexact"),
 "C01/2": (None, "not caught: needs a three-round constellation with two cooperating sites (replayed old-round justification + second DECIDE from a participant already in DECIDE); beyond K<=3 around the available base schedules"),
 "C02/1": ("./check C02 quick", "decision-not-prefix-of-honest-input (scenario eq6-two-thirds-view: six equal members, slow links, one Byzantine broadcast holding the best ticket); also C07 vote-for-unproven-value:PREPARE"),
 "C02/2": (None, "not caught: needs two different lagging participants skipping in two different rounds while the Byzantine participant holds the best ticket"),
 "C03/1": ("./check C03 quick", "proof-aggregate-invalid (scenario hon4-odd-supplemental, K=0)"),
 "C03/2": ("./check C03 quick", "proof-cert-rejected (dust power table; needs the key-set-bound aggregate scheme vfix.KeySetBound)"),
 "C04/1": ("./check C04 quick", "reported-power-table-wrong"),
 "C04/2": ("./check C04 quick", "invalid-chain-accepted:signed:chain-truncated (base-only certificates followed by an unlinked one)"),
 "C05/1": ("./check C05 quick", "verdict-depends-on-history:partial-key"),
 "C05/2": ("./check C05 quick", "invalid-message-accepted:sender=1"),
 "C06/1": ("./check C06 quick", "quiescent-undecided"),
 "C06/2": ("./check C06 quick", "not-decided-within-round-bound"),
 "C07/1": (None, "not caught: needs a lagging participant that skips onto a PREPARE-justified value, then receives late COMMITs for bottom from > 2/3, then times out CONVERGE with that value as the only one (5+ coordinated link delays)"),
 "C07/2": ("./check C07 quick", "vote-for-unproven-value:PREPARE (scenario dust4-byz, honest deviations K=2: a strong quorum of exactly 2/3)"),
 "C08/1": ("./check C08 quick", "IsStrongQuorum-inexact"),
 "C08/2": ("./check C08 quick", "scaled-power-inexact (needed magnitudes at word-size boundaries in the alphabet)"),
 "C09/1": ("./check C09 quick", "store-differs-from-reference:pt (history create:0 put:1 open)"),
 "C09/2": ("./check C09 quick", "wrong-delta-accepted (needed the empty-delta-but-other-CID put kind)"),
 "C10/1": ("./check C10 quick", "crash-recovery-latent-damage (needed: keep working after recovery, two more puts and another restart)"),
 "C10/2": ("./check C10 quick", "crash-reopen-fails:cre"),
 "C11/1": ("./check C11 quick", "purge-removed-live-file"),
 "C11/2": ("./check C11 quick", "purge-incomplete / acknowledged-entry-lost"),
 "C12/1": ("./check C12 quick", "self-equivocation-on-wire (history b710Pa T2 F R b710Pb; needed the on-disk file structure in the state key and the finalize/purge event)"),
 "C12/2": ("./check C12 quick", "published-before-recorded (second sender of a multi-participant node)"),
 "C13/1": ("./check C13 quick", "verdict-depends-on-history:partial"),
 "C13/2": ("./check C13 quick", "two-stage-differs-from-one-shot:matching/other"),
 "C14/1": ("./check C14 quick", "signed-bytes-collision (needed tipset keys at the 255/256 and 759/760 byte boundaries)"),
 "C14/2": ("./check C14 quick", "conc:concurrent-decode-corrupts-value (engine E2, two concurrent ZSTD decodes)"),
 "C15/1": ("./check C15 quick", "proposal-not-collapsed-on-divergence (head on a sibling of the base at the base's epoch)"),
 "C15/2": ("./check C15 quick", "committee-from-unfinalized-history / committee-wrong-table at instance initial+lookback"),
 "C16/1": ("./check C16 quick", "server-serves-more-than-requested (first 0, limit 0)"),
 "C16/2": ("./check C16 quick", "poller-misclassifies-honest-peer (needed: certificates gained locally between poller creation and poll)"),
 "C17/1": ("./check C17 quick", "imported-store-does-not-keep-working (export end on a checkpoint boundary; needed: keep using the imported store)"),
 "C17/2": ("./check C17 quick", "snapshot-with-wrong-intermediate-table-accepted"),
 "C18/1": ("./check C18 quick", "admitted-chain-prefix-not-retrievable (history look rem flood remprobe)"),
 "C18/2": ("./check C18 quick", "inadmissible-broadcast-admitted:future-timestamp"),
 "C19/1": ("./check C19 quick", "sim-accepts-valid-then-reuse-signature-other-value (needed: a valid decision reported before the forgery)"),
 "C19/2": ("./check C19 quick", "certchain-lookback-differs-from-node-rule"),
 "C20/1": ("./check C20 quick", "wait-extended-beyond-request-time (needed: a certificate arriving locally while a request is in flight)"),
 "C20/2": ("./check C20 quick", "poll-progress-not-store-advance (two peers, local arrival during the first request)"),
 # ---- round 2 (different sites / mechanisms; multi-step, crash, configuration, two-site changes)
 "C01/r2-1": ("./check C01 quick", "disagreement (eq4-byz-agree; free forgeries F: junk-certificate DECIDEs presented twice, accepted through the poisoned validation cache); also C05 verdict-depends-on-history:full"),
 "C01/r2-2": ("./check C01 quick", "disagreement (skew4-byz 2/31/35/32: one hold + two forged DECIDE(Y) carrying the observed certificate for X through the two-stage route; needed the wire route, forged probes and the skewed table)"),
 "C02/r2-1": ("./check C02 quick", "decision-not-prefix-of-honest-input (whale4-byz 7/1/1/1: a certificate signed by the Byzantine minnow alone credited with the largest entry's power); also C05 invalid-message-accepted:j.signers"),
 "C02/r2-2": ("./check C02 quick", "decision-not-prefix-of-honest-input (forged junk-certificate vote accepted at the second presentation)"),
 "C03/r2-1": ("./check C03 quick", "proof-aggregate-invalid / proof-cert-rejected (sender-swapped replays of genuine DECIDEs accepted from the validation cache; needed the donor warm-up on the probing route)"),
 "C03/r2-2": ("./check C03 quick", "decision-not-turned-into-certificate (host half: history [0 0 0 0 1 0], look-back 2: base-only decision after a progressing one)"),
 "C04/r2-1": ("./check C04 quick", "non-canonical-delta-accepted"),
 "C04/r2-2": ("./check C04 quick", "invalid-chain-accepted:signed:instance-1"),
 "C05/r2-1": ("./check C05 quick", "verdict-depends-on-history:full (rejected message cached as validated)"),
 "C05/r2-2": ("./check C05 quick", "conc:reader-saw-progress-never-announced (engine E2 on the production progress cell; needed gpbft/progress.go among the instrumented files)"),
 "C06/r2-1": ("./check C06 quick", "stalled-undecided / quiescent-undecided (a queued foreign-base QUALITY makes the start-up drain drop everything behind it; needed stall detection, also reached through the late-start policy)"),
 "C06/r2-2": ("./check C06 quick", "stalled-undecided (PREPARE of round >=1 loses its justification value on the two-stage route; needed the wire route in liveness plans)"),
 "C07/r2-1": ("./check C07 quick", "internal-error:ReceiveAlarm (a validation error escaping the queue drain; the monitor used to excuse validation errors from every API call)"),
 "C07/r2-2": ("./check C07 quick", "honest-message-branded-invalid (dust4-honest in the quick tier: a zero-scaled-power member now votes)"),
 "C08/r2-1": ("./check C08 quick", "could-reach-adversary-inexact (needed: a value without any tally entry)"),
 "C08/r2-2": ("./check C08 quick", "table-depends-on-how-it-was-built (needed: tables built member by member / onto a copy)"),
 "C09/r2-1": ("./check C10 quick", "crash-reopen-fails:put — a crash between two datastore writes of Put at the production checkpoint boundary: decided by C10's check (crash atomicity); C09's own check does not quantify over crashes and stays silent"),
 "C09/r2-2": ("./check C09 quick", "conc:reader-saw-wrong-power-table (engine E2)"),
 "C10/r2-1": ("./check C10 quick", "crash-reopen-fails:wip"),
 "C10/r2-2": ("./check C10 quick", "crash-reopen-fails:put (needed histories at the real 1440 boundary: the lowered test frequency is not in effect during Open)"),
 "C11/r2-1": ("./check C11 quick", "acknowledged-entry-lost (needed an append whose encoding fails part-way)"),
 "C11/r2-2": ("./check C11 quick", "acknowledged-entry-lost"),
 "C12/r2-1": ("./check C12 quick", "self-equivocation-on-wire (history b710Pa T2 f R b710Pb: early-network certificate, wrapped unsigned subtraction purges everything; needed the production finalize goroutine instead of a re-statement of it)"),
 "C12/r2-2": ("./check C12 quick", "published-before-recorded (history T2 b710Pa: appending behind a torn tail)"),
 "C13/r2-1": ("./check C13 quick", "two-stage-differs-from-one-shot:matching/original"),
 "C13/r2-2": ("./check C13 quick", "strip-complete-not-identity:manager-buffered (needed completion by the real PartialMessageManager, buffered route)"),
 "C14/r2-1": ("./check C14 quick", "roundtrip-mismatch:zstd+cbor/39 tipsets x 760-byte keys (needed the largest valid wire values)"),
 "C14/r2-2": ("./check C14 quick", "fork-of-prefix-rewrites-parent (needed forks grown on prefix objects)"),
 "C15/r2-1": ("./check C15 quick", "proposal-wrong-base (needed proposals for instances behind the store's latest certificate)"),
 "C15/r2-2": ("./check C15 quick", "committee-from-unfinalized-history"),
 "C16/r2-1": ("./check C16 quick", "poller-poisoned-by-earlier-response (needed a final honest poll after every script)"),
 "C16/r2-2": ("./check C16 quick", "server-serves-at-or-beyond-pending (needed the store growing in the middle of a request)"),
 "C17/r2-1": ("./check C17 quick", "malformed-snapshot-accepted:header-table-reversed-vs-manifest"),
 "C17/r2-2": ("./check C17 quick", "malformed-snapshot-accepted:inserted-empty-block"),
 "C18/r2-1": ("./check C18 quick", "unadmitted-chain-retrievable"),
 "C18/r2-2": ("./check C18 quick", "admitted-chain-never-retrievable:own (needed the started service end to end with the start context cancelled)"),
 "C19/r2-1": ("./check C19 quick", "sim-accepts-last-underpowered / sim-accepts-last-bad-aggregate (needed a forged decision that completes the instance)"),
 "C19/r2-2": ("./check C19 quick", "certchain-certificate-commits-to-wrong-committee (needed one generator used for two chains)"),
 "C20/r2-1": ("./check C20 quick", "cadence-does-not-settle (needed a crowd: one up-to-date peer, then 40 that never have anything)"),
 "C20/r2-2": ("./check C20 quick", "poller-next-instance-not-store (needed certificates at the peers whose first also arrives locally during the request)"),
 # ---- round 3
 "C04/r3-1": ("./check C04 quick", "valid-chain-rejected:signers (certificate validation and consensus disagree on the scaled total; six equal members)"),
 "C04/r3-2": ("./check C04 quick", "valid-chain-rejected:signed:commitments-changed"),
 "C09/r3-1": ("./check C09 quick", "conc:subscriber-misses-latest (engine E2)"),
 "C09/r3-2": ("./check C09 quick", "gap-accepted"),
 "C10/r3-1": ("./check C10 quick", "crash-reopen-fails:put (real checkpoint frequency)"),
 "C10/r3-2": ("./check C10 quick", "crash-leaves-datastore-neither-openable-nor-creatable (needed: CreateStore may refuse only where OpenStore finds a store)"),
 "C11/r3-1": ("./check C11 quick", "conc:wal-operation-failed-under-concurrency (needed an engine-E2 scenario for the WAL: purge vs append+rotate vs read)"),
 "C11/r3-2": ("./check C11 quick", "purge-removed-live-file"),
 "C12/r3-1": ("./check C12 quick", "self-equivocation-on-wire (history b710Pa b712Pa b710Pb; needed rounds 0..3 of one slot in the alphabet)"),
 "C12/r3-2": ("./check C12 quick", "published-before-recorded (history g R h; needed a WAL file past its rotation size); also C11 acknowledged-entry-lost"),
 "C13/r3-1": ("./check C13 quick", "two-stage-differs-from-one-shot:other/other (needed partial messages that still carry their chain)"),
 "C13/r3-2": ("./check C13 quick", "verdict-depends-on-history:partial-key"),
 "C16/r3-1": ("./check C16 quick", "server-wrong-power-table (empty store)"),
 "C16/r3-2": ("./check C16 quick", "poller-misclassifies-honest-peer (needed: two or more certificates gained locally while the request is in flight)"),
 "C17/r3-1": ("./check C17 quick", "imported-store-does-not-keep-working"),
 "C17/r3-2": ("./check C17 quick", "malformed-snapshot-accepted:dropped-block"),
}
for d in sorted(glob.glob('/verif/seeded/C*/*')):
    if not os.path.isdir(d): continue
    key = '/'.join(d.split('/')[-2:])
    am = {}
    p = os.path.join(d, 'agent_meta.json')
    if os.path.exists(p):
        try: am = json.load(open(p))
        except Exception: am = {}
    conf = ''
    lp = os.path.join(d, 'confirm.log')
    if os.path.exists(lp):
        lines = [l for l in open(lp).read().splitlines() if l.startswith('RESULT')]
        conf = lines[-1] if lines else ''
    det = DET.get(key, (None, 'not yet evaluated'))
    demo = [f for f in os.listdir(d) if f.startswith('demo')]
    meta = {
        "property": key.split('/')[0],
        "breaks": am.get('summary', ''),
        "needs_to_manifest": am.get('needs', ''),
        "files": am.get('files', []),
        "demonstration": demo,
        "demo_cmd": am.get('demo_cmd', ''),
        "what_i_ran": "tools/seedconfirm.sh (scratch worktree of /repo at the repaired HEAD): " + conf,
        "agent_reported_tests": am.get('tests_run', ''),
        "detected_by": det[0],
        "detection_note": det[1],
    }
    json.dump(meta, open(os.path.join(d, 'meta.json'), 'w'), indent=1)
    print(key, 'detected' if det[0] else 'NOT detected')
