#!/usr/bin/env bash
# Run the repository's slow simulation suite (./test/...) and the root package with a seeded gpbft change applied,
# in a scratch worktree; appends the result to the seed's confirm.log.
id="$1"; k="$2"
out=/verif/seeded/$id/$k
wt=/tmp/seedconf/heavy-$id-$k
export GOFLAGS=-mod=mod GOPROXY=off
rm -rf "$wt"; git -C /repo worktree prune; git -C /repo worktree add -q --detach "$wt" HEAD || exit 2
cd "$wt" && git apply "$out/patch.diff" || exit 2
r=PASS; go test -count=1 -timeout 60m ./test/... . >> "$out/confirm.log" 2>&1 || r=FAIL
echo "RESULT-HEAVY existing_slow_suites_with_patch(./test/... .)=$r" | tee -a "$out/confirm.log"
cd /; git -C /repo worktree remove --force "$wt"
