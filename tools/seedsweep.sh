#!/usr/bin/env bash
# Re-run, for every kept seeded change, the check recorded as catching it (quick tier, through the build overlay)
# and print what it reports now.  Usage: tools/seedsweep.sh [filter-regex]   (output: one line per change)
cd /verif
for d in seeded/C*/*/; do
  key=$(echo "$d" | sed 's|seeded/||; s|/$||')
  [ -n "${1:-}" ] && ! echo "$key" | grep -Eq "$1" && continue
  chk=$(python3 -c "
import json,re,sys
m=json.load(open('$d/meta.json'))
by=m.get('detected_by') or ''
r=re.search(r'C\d\d', by)
print(r.group(0) if r else m['property'])")
  out=$(tools/seedrun.sh "$d/patch.diff" "$chk" quick 2>&1)
  fp=$(echo "$out" | grep -a -m1 'fingerprint=' | sed 's/.*fingerprint=//')
  last=$(echo "$out" | grep -a "$chk quick:" | tail -1 | sed 's/; evidence.*//')
  echo "$key via $chk: ${fp:-NOT-REPORTED} | $last"
done
