#!/usr/bin/env bash
# Confirm a seeded change in a scratch worktree of /repo (never in /repo itself):
#   tools/seedconfirm.sh <Cxx> <k> <demo-dir-relative-to-repo-root> [extra packages to test ...]
# Steps: apply patch, build, run the demonstration (must FAIL), run the existing tests of the touched
# packages + extra packages with the demonstration skipped (must PASS), revert, run the demonstration
# (must PASS).  Result and log go to /verif/seeded/<Cxx>/<k>/.
set -u
id="$1"; k="$2"; ddir="$3"; shift 3
extra="$*"
src=/tmp/seed/out-$id
out=/verif/seeded/$id/$k
if [ "${SEED_ROUND:-1}" != 1 ]; then
  # later rounds: /tmp/seed/out<round>-<id>/patch<k>.diff -> /verif/seeded/<id>/r<round>-<k>/
  src=/tmp/seed/out${SEED_ROUND}-$id
  out=/verif/seeded/$id/r${SEED_ROUND}-$k
fi
mkdir -p "$out"
cp "$src/patch$k.diff" "$out/patch.diff"
demo=$(ls "$src"/demo${k}_test.go 2>/dev/null || ls "$src"/demo$k/*.go 2>/dev/null | head -1)
cp "$demo" "$out/"
[ -f "$src/meta$k.json" ] && cp "$src/meta$k.json" "$out/agent_meta.json"
wt=/tmp/seedconf/$id-r${SEED_ROUND:-1}-$k
export GOFLAGS=-mod=mod GOPROXY=off
rm -rf "$wt"; git -C /repo worktree prune; git -C /repo worktree add -q --detach "$wt" "${SEED_BASE:-HEAD}" || exit 2
log="$out/confirm.log"; : > "$log"
cd "$wt"
res() { echo "$1" | tee -a "$log"; }
if ! git apply --check "$out/patch.diff" 2>>"$log"; then res "RESULT apply=FAIL"; cd /; git -C /repo worktree remove --force "$wt"; exit 1; fi
git apply "$out/patch.diff"
pkgs=$(grep '^+++ b/' "$out/patch.diff" | sed 's|^+++ b/||' | xargs -n1 dirname | sort -u | sed 's|^|./|')
cp "$demo" "$ddir/zz_seed_demo_test.go"
tests=$(grep -ho 'func Test[A-Za-z0-9_]*' "$ddir/zz_seed_demo_test.go" | sed 's/func //' | paste -sd'|')
b=PASS; go build ./... >>"$log" 2>&1 || b=FAIL
d1=PASS; go test -count=1 -timeout 20m -run "^($tests)\$" "./$ddir" >>"$log" 2>&1 || d1=FAIL
rm -f "$ddir/zz_seed_demo_test.go"
t=PASS; go test -count=1 -timeout 40m $pkgs $extra >>"$log" 2>&1 || t=FAIL
git checkout -q -- .
cp "$demo" "$ddir/zz_seed_demo_test.go"
d2=PASS; go test -count=1 -timeout 20m -run "^($tests)\$" "./$ddir" >>"$log" 2>&1 || d2=FAIL
rm -f "$ddir/zz_seed_demo_test.go"
res "RESULT build_with_patch=$b demo_with_patch=$d1 existing_tests_with_patch=$t demo_without_patch=$d2 packages_tested='$pkgs $extra' base=$(git rev-parse --short HEAD)"
cd /; git -C /repo worktree remove --force "$wt"
[ "$b" = PASS ] && [ "$d1" = FAIL ] && [ "$t" = PASS ] && [ "$d2" = PASS ]
