#!/usr/bin/env bash
# Run every registered check (quick or thorough) on the current tree; print id, exit code, seconds.
tier="${1:-quick}"
cd /verif
for id in $(python3 -c "import json; print(' '.join(c['property_id'] for c in json.load(open('MANIFEST.json'))['checks']))"); do
  s=$(date +%s)
  ./check "$id" "$tier" > ".work/runall-$id.log" 2>&1
  rc=$?
  e=$(date +%s)
  echo "$id rc=$rc $((e-s))s $(grep -c '^VIOLATION' .work/runall-$id.log) violations; $(tail -1 .work/runall-$id.log | cut -c1-120)"
done
