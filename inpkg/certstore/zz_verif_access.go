//go:build verif

// Accessors injected into package certstore at build time by /verif (go build -overlay, tag verif).
package certstore

import (
	"context"

	"github.com/filecoin-project/go-f3/manifest"
	"github.com/ipfs/go-datastore"
)

// VerifSetPowerTableFrequency lowers the unexported checkpoint frequency so that a bounded exploration
// crosses power-table checkpoints densely.
func (cs *Store) VerifSetPowerTableFrequency(f uint64) { cs.powerTableFrequency = f }

func (cs *Store) VerifFirstInstance() uint64 { return cs.firstInstance }

// VerifImportSnapshot is the production import routine with the (already existing) testing frequency knob.
func VerifImportSnapshot(ctx context.Context, snapshot SnapshotReader, ds datastore.Batching, m *manifest.Manifest, freq uint64) error {
	return importSnapshotToDatastoreWithTestingPowerTableFrequency(ctx, snapshot, ds, m, freq)
}
