//go:build verif

// Accessors injected into package polling at build time by /verif (go build -overlay, tag verif).
package polling

import (
	"context"

	"github.com/filecoin-project/go-f3/internal/clock"
	"github.com/libp2p/go-libp2p/core/peer"
)

// VerifInit prepares a Subscriber exactly as Start does, except that peer discovery is replaced by a
// channel supplied by the harness and the run loop is not spawned.
func (s *Subscriber) VerifInit(ctx context.Context, discover <-chan peer.ID) error {
	s.clock = clock.GetClock(ctx)
	s.peerTracker = newPeerTracker(s.clock)
	var err error
	s.poller, err = NewPoller(ctx, &s.Client, s.Store, s.SignatureVerifier)
	s.discoverCh = discover
	return err
}

// VerifRun runs the production polling loop (Subscriber.run) until ctx is cancelled.
func (s *Subscriber) VerifRun(ctx context.Context) error { return s.run(ctx) }

// VerifPoll performs one production polling round and returns the progress it reports.
func (s *Subscriber) VerifPoll(ctx context.Context) (uint64, bool, error) { return s.poll(ctx) }

// VerifCatchUp is the local catch-up the run loop performs before polling.
func (s *Subscriber) VerifCatchUp(ctx context.Context) (uint64, error) { return s.poller.CatchUp(ctx) }

func (s *Subscriber) VerifPeerSeen(p peer.ID) { s.peerTracker.peerSeen(p) }

func (s *Subscriber) VerifNextInstance() uint64 { return s.poller.NextInstance }
