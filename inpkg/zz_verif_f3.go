//go:build verif

// Accessors injected into package f3 at build time by /verif (go build -overlay, tag verif).
package f3

import (
	"context"
	"fmt"
	"sort"
	"strings"
	"sync/atomic"
	"unsafe"

	"github.com/filecoin-project/go-f3/certs"
	"github.com/filecoin-project/go-f3/certstore"
	"github.com/filecoin-project/go-f3/ec"
	"github.com/filecoin-project/go-f3/gpbft"
	"github.com/filecoin-project/go-f3/internal/clock"
	"github.com/filecoin-project/go-f3/internal/writeaheadlog"
	"github.com/filecoin-project/go-f3/manifest"
	pubsub "github.com/libp2p/go-libp2p-pubsub"
	"github.com/libp2p/go-libp2p/core/peer"
)

// VerifInputs exposes the unexported consensus-inputs component (proposal and committee derivation).
type VerifInputs struct{ in gpbftInputs }

func VerifNewInputs(m manifest.Manifest, cs *certstore.Store, e ec.Backend, v gpbft.Verifier, clk clock.Clock) *VerifInputs {
	return &VerifInputs{in: newInputs(m, cs, e, v, clk)}
}

func (v *VerifInputs) GetProposal(ctx context.Context, instance uint64) (*gpbft.SupplementalData, *gpbft.ECChain, error) {
	return v.in.GetProposal(ctx, instance)
}

func (v *VerifInputs) GetCommittee(ctx context.Context, instance uint64) (*gpbft.Committee, error) {
	return v.in.GetCommittee(ctx, instance)
}

// ---- C12: the broadcast path (filter -> WAL -> publish) and its restart behaviour ---------------------------

// VerifRunner wraps the production gpbftRunner built by newRunner over a real WAL directory and started with
// the production Start (so the certificate-driven goroutines — skip-forward and finalize/purge — are the real
// ones). The clock in ctx is a mock that never advances: the participant never begins an instance by itself,
// the harness alone decides what is broadcast (BroadcastMessage / RequestRebroadcast / Stop).
type VerifRunner struct{ r *gpbftRunner }

func VerifNewRunner(ctx context.Context, cs *certstore.Store, e ec.Backend, ps *pubsub.PubSub, v gpbft.Verifier,
	m manifest.Manifest, walDir string, pid peer.ID) (*VerifRunner, error) {
	wal, err := writeaheadlog.Open[walEntry, *walEntry](walDir)
	if err != nil {
		return nil, err
	}
	out := make(chan *gpbft.MessageBuilder, 64)
	r, err := newRunner(ctx, cs, e, ps, v, out, m, wal, pid)
	if err != nil {
		return nil, err
	}
	if err := r.Start(ctx); err != nil {
		return nil, err
	}
	// Inbound validation is not under test here: the harness observes the wire through a default
	// validator of its own, so the runner's topic validator (which would reject the harness's messages for
	// instances the idle participant is not in) is removed.
	_ = ps.UnregisterTopicValidator(m.PubSubTopic())
	return &VerifRunner{r: r}, nil
}

func (v *VerifRunner) Broadcast(ctx context.Context, msg *gpbft.GMessage) error {
	return v.r.BroadcastMessage(ctx, msg)
}

func (v *VerifRunner) Rebroadcast(instant gpbft.Instant) error {
	return (*gpbftHost)(v.r).RequestRebroadcast(instant)
}

func (v *VerifRunner) Stop(ctx context.Context) error { return v.r.Stop(ctx) }

// DumpState renders the in-memory anti-equivocation state (filter + rebroadcast store) canonically.
func (v *VerifRunner) DumpState() string {
	ef := &v.r.equivFilter
	ef.lk.Lock()
	defer ef.lk.Unlock()
	var parts []string
	for k, m := range ef.seenMessages {
		parts = append(parts, fmt.Sprintf("seen:%d.%d.%d=%x@%v", k.Sender, k.Round, k.Phase, m.signature, m.origin == ef.localPID))
	}
	for id, s := range ef.activeSenders {
		parts = append(parts, fmt.Sprintf("act:%d=%d,%v", id, len(s.origins), s.equivocation))
	}
	v.r.msgsMutex.Lock()
	for inst, rp := range v.r.selfMessages {
		for k, ms := range rp {
			for _, mm := range ms {
				parts = append(parts, fmt.Sprintf("self:%d.%d.%d.%d=%x", inst, k.round, k.phase, mm.Sender, mm.Signature))
			}
		}
	}
	v.r.msgsMutex.Unlock()
	sort.Strings(parts)
	return fmt.Sprintf("cur=%d|%s", ef.currentInstance, strings.Join(parts, ";"))
}

// VerifEquivFilter exposes the unexported equivocation filter for exhaustive state-space enumeration.
type VerifEquivFilter struct{ f equivocationFilter }

func VerifNewEquivFilter(pid peer.ID) *VerifEquivFilter {
	return &VerifEquivFilter{f: newEquivocationFilter(pid)}
}
func (v *VerifEquivFilter) ProcessBroadcast(m *gpbft.GMessage) bool     { return v.f.ProcessBroadcast(m) }
func (v *VerifEquivFilter) ProcessReceive(p peer.ID, m *gpbft.GMessage) { v.f.ProcessReceive(p, m) }

// LockMsgs / UnlockMsgs / MsgsWaiters let the harness make the asynchronous finalize goroutine's progress
// observable without touching it: the harness holds msgsMutex while the goroutine runs its purge; the goroutine
// then queues on the mutex (its next step is the rebroadcast-store trim), which the waiter count shows.
func (v *VerifRunner) LockMsgs()   { v.r.msgsMutex.Lock() }
func (v *VerifRunner) UnlockMsgs() { v.r.msgsMutex.Unlock() }

// MsgsWaiters returns (queued waiters, a woken-or-spinning locker exists) of msgsMutex; sync.Mutex keeps both
// in its first word (state int32: bit0 locked, bit1 woken, bit2 starving, waiters from bit 3).
func (v *VerifRunner) MsgsWaiters() (int, bool) {
	st := atomic.LoadInt32((*int32)(unsafe.Pointer(&v.r.msgsMutex)))
	return int(st >> 3), st&2 != 0
}

// VerifSaveDecision runs the production gpbftHost.saveDecision (decision -> power-table delta -> finality
// certificate -> self-validation -> certificate store) on a runner that has exactly the parts it uses.
func VerifSaveDecision(ctx context.Context, m manifest.Manifest, cs *certstore.Store, e ec.Backend, v gpbft.Verifier,
	clk clock.Clock, decision *gpbft.Justification) (*certs.FinalityCertificate, error) {
	r := &gpbftRunner{certStore: cs, manifest: m, ec: e, verifier: v, clock: clk, runningCtx: ctx, inputs: newInputs(m, cs, e, v, clk)}
	return (*gpbftHost)(r).saveDecision(ctx, decision)
}
