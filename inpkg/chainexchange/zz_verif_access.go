//go:build verif

// Accessors injected into package chainexchange at build time by /verif (go build -overlay, tag verif):
// the pubsub validator and the two caching routines are driven synchronously, without a network.
package chainexchange

import (
	"context"
	"fmt"
	"sort"
	"strings"

	"github.com/filecoin-project/go-f3/gpbft"
	pubsub "github.com/libp2p/go-libp2p-pubsub"
	pubsub_pb "github.com/libp2p/go-libp2p-pubsub/pb"
)

// VerifReceive runs the production topic validator on raw message bytes and, if (and only if) it accepts,
// the production discovered-chain caching, exactly as the subscription loop does.
func (p *PubSubChainExchange) VerifReceive(ctx context.Context, data []byte) pubsub.ValidationResult {
	msg := &pubsub.Message{Message: &pubsub_pb.Message{Data: data}}
	res := p.validatePubSubMessage(ctx, "", msg)
	if res == pubsub.ValidationAccept {
		p.cacheAsDiscoveredChain(ctx, msg.ValidatorData.(Message))
	}
	return res
}

// VerifOwnBroadcast is what Broadcast does locally (the publish itself is not under test).
func (p *PubSubChainExchange) VerifOwnBroadcast(ctx context.Context, m Message) {
	p.cacheAsWantedChain(ctx, m)
}

func (p *PubSubChainExchange) VerifEncode(m *Message) ([]byte, error) { return p.encoding.Encode(m) }

// VerifDump renders both caches canonically (instances ascending, LRU order oldest first).
func (p *PubSubChainExchange) VerifDump() string {
	p.mu.Lock()
	defer p.mu.Unlock()
	var sb strings.Builder
	dump := func(name string, m map[uint64]interface {
		Keys() []gpbft.ECChainKey
		Peek(gpbft.ECChainKey) (*chainPortion, bool)
	}) {
		insts := make([]uint64, 0, len(m))
		for i := range m {
			insts = append(insts, i)
		}
		sort.Slice(insts, func(a, b int) bool { return insts[a] < insts[b] })
		for _, i := range insts {
			fmt.Fprintf(&sb, "%s%d[", name, i)
			for _, k := range m[i].Keys() {
				v, _ := m[i].Peek(k)
				// the held chain by content (its tipsets), not by its memoised key: a chain rewritten in place must
				// not look like the one that was admitted
				content := ""
				if !v.IsPlaceholder() && v.chain != nil {
					for _, t := range v.chain.TipSets {
						content += fmt.Sprintf("%d/%x;", t.Epoch, t.Key)
					}
				}
				fmt.Fprintf(&sb, "%x:%v:%s,", k[:4], v.IsPlaceholder(), content)
			}
			sb.WriteString("]")
		}
	}
	w := map[uint64]interface {
		Keys() []gpbft.ECChainKey
		Peek(gpbft.ECChainKey) (*chainPortion, bool)
	}{}
	for i, c := range p.chainsWanted {
		w[i] = c
	}
	d := map[uint64]interface {
		Keys() []gpbft.ECChainKey
		Peek(gpbft.ECChainKey) (*chainPortion, bool)
	}{}
	for i, c := range p.chainsDiscovered {
		d[i] = c
	}
	dump("W", w)
	dump("D", d)
	return sb.String()
}
