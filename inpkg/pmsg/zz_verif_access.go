//go:build verif

// Accessor injected into package pmsg at build time by /verif (go build -overlay, tag verif).
package pmsg

import "github.com/filecoin-project/go-f3/gpbft"

// VerifInferJustificationVoteValue exposes the production inference used when a partial message is
// completed with its chain.
func VerifInferJustificationVoteValue(p *gpbft.PartialGMessage) { inferJustificationVoteValue(p) }

// VerifToPartial strips a message with the production code (the method does not use its receiver).
func VerifToPartial(m *gpbft.GMessage) (*gpbft.PartialGMessage, error) {
	return (*PartialMessageManager)(nil).ToPartialGMessage(m)
}
