//go:build verif

// Accessor injected into package pmsg at build time by /verif (go build -overlay, tag verif).
package pmsg

import (
	"context"

	"github.com/filecoin-project/go-f3/chainexchange"
	"github.com/filecoin-project/go-f3/gpbft"
)

// VerifInferJustificationVoteValue exposes the production inference used when a partial message is
// completed with its chain.
func VerifInferJustificationVoteValue(p *gpbft.PartialGMessage) { inferJustificationVoteValue(p) }

// VerifToPartial strips a message with the production code (the method does not use its receiver).
func VerifToPartial(m *gpbft.GMessage) (*gpbft.PartialGMessage, error) {
	return (*PartialMessageManager)(nil).ToPartialGMessage(m)
}

// VerifLearnChain makes the manager's chain exchange learn a chain the way an own broadcast does (the
// production Broadcast: cached as wanted, then published).
func (pmm *PartialMessageManager) VerifLearnChain(ctx context.Context, instance uint64, chain *gpbft.ECChain) error {
	return pmm.chainex.Broadcast(ctx, chainexchange.Message{Instance: instance, Chain: chain, Timestamp: pmm.clk.Now().UnixMilli()})
}
