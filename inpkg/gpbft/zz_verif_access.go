//go:build verif

// Accessors injected into package gpbft at build time by /verif (go build -overlay, tag verif).
// They only *read* unexported state or forward to unexported predicates; no repository code is replaced.
package gpbft

import (
	"context"
	"fmt"
	"io"
	"sort"
	"time"
)

// VerifHasWeakQuorum exposes the unexported weak-quorum predicate.
func VerifHasWeakQuorum(part, whole int64) bool { return hasWeakQuorum(part, whole) }

// VerifQuorumState wraps the unexported vote tally so a harness can feed it votes of known weight.
type VerifQuorumState struct{ q *quorumState }

func VerifNewQuorumState(pt *PowerTable) *VerifQuorumState {
	return &VerifQuorumState{q: newQuorumState(pt)}
}
func (v *VerifQuorumState) Receive(sender ActorID, value *ECChain, sig []byte) {
	v.q.Receive(sender, value, sig)
}
func (v *VerifQuorumState) ReceiveEachPrefix(sender ActorID, value *ECChain) {
	v.q.ReceiveEachPrefix(sender, value)
}
func (v *VerifQuorumState) HasStrongQuorumFor(k ECChainKey) bool { return v.q.HasStrongQuorumFor(k) }
func (v *VerifQuorumState) CouldReachStrongQuorumFor(k ECChainKey, adv bool) bool {
	return v.q.CouldReachStrongQuorumFor(k, adv)
}
func (v *VerifQuorumState) ReceivedFromStrongQuorum() bool { return v.q.ReceivedFromStrongQuorum() }
func (v *VerifQuorumState) ReceivedFromWeakQuorum() bool   { return v.q.ReceivedFromWeakQuorum() }
func (v *VerifQuorumState) FindStrongQuorumFor(k ECChainKey) (QuorumResult, bool) {
	return v.q.FindStrongQuorumFor(k)
}
func (v *VerifQuorumState) FindStrongQuorumValue() (c *ECChain, ok bool, panicked any) {
	defer func() {
		if r := recover(); r != nil {
			panicked = r
		}
	}()
	c, ok = v.q.FindStrongQuorumValue()
	return
}
func (v *VerifQuorumState) FindStrongQuorumValueForLongestPrefixOf(c *ECChain) *ECChain {
	return v.q.FindStrongQuorumValueForLongestPrefixOf(c)
}

// VerifScalePower exposes the unexported scaling function.
func VerifScalePower(power, total StoragePower) (int64, error) { return scalePower(power, total) }

// VerifVRFInput exposes the VRF signing input.
func VerifVRFInput(beacon []byte, instance, round uint64, nn NetworkName) []byte {
	return vrfSerializeSigInput(beacon, instance, round, nn)
}

func dumpJust(w io.Writer, j *Justification) {
	if j == nil {
		fmt.Fprint(w, "J<nil>")
		return
	}
	k := j.Vote.Value.Key()
	fmt.Fprintf(w, "J(%d,%d,%d,%x)", j.Vote.Instance, j.Vote.Round, j.Vote.Phase, k[:6])
}

func dumpTime(w io.Writer, base time.Time, t time.Time) {
	if t.IsZero() {
		fmt.Fprint(w, "t0")
		return
	}
	fmt.Fprintf(w, "t%d", t.Sub(base))
}

func dumpQuorum(w io.Writer, name string, q *quorumState) {
	fmt.Fprintf(w, "%s{", name)
	ids := make([]int, 0, len(q.senders))
	for id := range q.senders {
		ids = append(ids, int(id))
	}
	sort.Ints(ids)
	fmt.Fprintf(w, "s%v;", ids)
	keys := make([]string, 0, len(q.chainSupport))
	for k := range q.chainSupport {
		keys = append(keys, string(k[:]))
	}
	sort.Strings(keys)
	for _, ks := range keys {
		var k ECChainKey
		copy(k[:], ks)
		cs := q.chainSupport[k]
		sg := make([]int, 0, len(cs.signatures))
		for id := range cs.signatures {
			sg = append(sg, int(id))
		}
		sort.Ints(sg)
		fmt.Fprintf(w, "%x:%d%v%v;", k[:6], cs.power, sg, cs.hasStrongQuorum)
	}
	jk := make([]string, 0, len(q.receivedJustification))
	for k := range q.receivedJustification {
		jk = append(jk, string(k[:]))
	}
	sort.Strings(jk)
	for _, ks := range jk {
		var k ECChainKey
		copy(k[:], ks)
		fmt.Fprintf(w, "%x=", k[:6])
		dumpJust(w, q.receivedJustification[k])
		fmt.Fprint(w, ";")
	}
	fmt.Fprint(w, "}")
}

// VerifDump writes a canonical description of all protocol state of the participant that the
// transition functions in gpbft.go / participant.go read (the validation cache and the committee
// cache are deliberately excluded).  Times are written relative to base.
func (p *Participant) VerifDump(w io.Writer, base time.Time) {
	pr := p.Progress()
	fmt.Fprintf(w, "P(%d,%d,%d)", pr.ID, pr.Round, pr.Phase)
	// future-instance queue
	insts := make([]uint64, 0, len(p.mqueue.messages))
	for i := range p.mqueue.messages {
		insts = append(insts, i)
	}
	sort.Slice(insts, func(a, b int) bool { return insts[a] < insts[b] })
	for _, i := range insts {
		fmt.Fprintf(w, "Q%d[", i)
		senders := make([]int, 0)
		for s := range p.mqueue.messages[i] {
			senders = append(senders, int(s))
		}
		sort.Ints(senders)
		for _, s := range senders {
			for _, m := range p.mqueue.messages[i][ActorID(s)] {
				k := m.Vote.Value.Key()
				fmt.Fprintf(w, "%d:%d.%d.%x.", s, m.Vote.Round, m.Vote.Phase, k[:6])
				dumpJust(w, m.Justification)
				fmt.Fprint(w, ",")
			}
		}
		fmt.Fprint(w, "]")
	}
	i := p.gpbft
	if i == nil {
		fmt.Fprint(w, "I<nil>")
		return
	}
	ik, pk, vk := i.input.Key(), i.proposal.Key(), i.value.Key()
	fmt.Fprintf(w, "I(%d,%d,%d|in%x|pr%x|va%x|", i.current.ID, i.current.Round, i.current.Phase, ik[:6], pk[:6], vk[:6])
	dumpTime(w, base, i.phaseTimeout)
	dumpTime(w, base, i.rebroadcastTimeout)
	fmt.Fprintf(w, "|ra%d|", i.rebroadcastAttempts)
	cands := make([]string, 0, len(i.candidates))
	for k := range i.candidates {
		cands = append(cands, fmt.Sprintf("%x", k[:6]))
	}
	sort.Strings(cands)
	fmt.Fprintf(w, "c%v|", cands)
	dumpJust(w, i.terminationValue)
	dumpQuorum(w, "Qu", i.quality)
	dumpQuorum(w, "De", i.decision)
	rounds := make([]uint64, 0, len(i.rounds))
	for r := range i.rounds {
		rounds = append(rounds, r)
	}
	sort.Slice(rounds, func(a, b int) bool { return rounds[a] < rounds[b] })
	for _, r := range rounds {
		rs := i.rounds[r]
		// Skip rounds that are entirely empty: getRound creates them lazily on mere inspection.
		if len(rs.prepared.senders) == 0 && len(rs.committed.senders) == 0 && len(rs.converged.senders) == 0 &&
			len(rs.converged.values) == 0 && len(rs.prepared.receivedJustification) == 0 && len(rs.committed.receivedJustification) == 0 {
			continue
		}
		fmt.Fprintf(w, "R%d(", r)
		dumpQuorum(w, "Pr", rs.prepared)
		dumpQuorum(w, "Co", rs.committed)
		cs := rs.converged
		ids := make([]int, 0, len(cs.senders))
		for id := range cs.senders {
			ids = append(ids, int(id))
		}
		sort.Ints(ids)
		fmt.Fprintf(w, "Cv{s%v;", ids)
		keys := make([]string, 0, len(cs.values))
		for k := range cs.values {
			keys = append(keys, string(k[:]))
		}
		sort.Strings(keys)
		for _, ks := range keys {
			var k ECChainKey
			copy(k[:], ks)
			v := cs.values[k]
			fmt.Fprintf(w, "%x:%v:", k[:6], v.Rank)
			dumpJust(w, v.Justification)
			fmt.Fprint(w, ";")
		}
		fmt.Fprint(w, "})")
	}
	fmt.Fprint(w, ")")
}

// VerifValidator is the production caching validator with a harness-controlled progress function and
// cache geometry.
type VerifValidator struct {
	v     *cachingValidator
	cache interface{ RemoveGroupsLessThan(uint64) bool }
}

func VerifNewValidator(nn NetworkName, verifier Verifier, cp CommitteeProvider, progress func() InstanceProgress, maxGroups, maxPerGroup int, lookback uint64) *VerifValidator {
	c := newVerifGroupedSet(maxGroups, maxPerGroup)
	return &VerifValidator{v: newValidator(nn, verifier, cp, progress, c, lookback), cache: c}
}

func (v *VerifValidator) ValidateMessage(ctx context.Context, m *GMessage) (ValidatedMessage, error) {
	return v.v.ValidateMessage(ctx, m)
}
func (v *VerifValidator) PartiallyValidateMessage(ctx context.Context, m *PartialGMessage) (PartiallyValidatedMessage, error) {
	return v.v.PartiallyValidateMessage(ctx, m)
}
func (v *VerifValidator) FullyValidateMessage(ctx context.Context, m PartiallyValidatedMessage) (ValidatedMessage, error) {
	return v.v.FullyValidateMessage(ctx, m)
}
func (v *VerifValidator) EvictGroupsBelow(instance uint64) { v.cache.RemoveGroupsLessThan(instance) }

// VerifProgression exposes the production progress cell that the participant writes (NotifyProgress at every
// instance / round / step change) and that validation goroutines read concurrently.
type VerifProgression struct{ a *atomicProgression }

func VerifNewProgression() *VerifProgression           { return &VerifProgression{a: newAtomicProgression()} }
func (p *VerifProgression) Notify(ip InstanceProgress) { p.a.NotifyProgress(ip) }
func (p *VerifProgression) Get() InstanceProgress      { return p.a.Get() }
