//go:build verif

package gpbft

import (
	"context"

	"github.com/filecoin-project/go-f3/internal/caching"
)

var _ = context.Background

func newVerifGroupedSet(maxGroups, maxPerGroup int) *caching.GroupedSet {
	return caching.NewGroupedSet(maxGroups, maxPerGroup)
}
