// equivmc — C12: breadth-first search over histories of (conflicting) broadcast requests, rebroadcasts,
// clean restarts and crash-restarts on the production broadcast path (equivocation filter -> WAL append ->
// pubsub publish) built by newRunner over a real WAL directory; the wire is observed synchronously by a
// pubsub default validator, which also snapshots the WAL directory at publish time.  Plus an exhaustive
// exploration of the pure equivocation filter with remote receives.
package main

import (
	"bytes"
	"context"
	"crypto/sha256"
	"encoding/json"
	"flag"
	"fmt"
	"io"
	"os"
	"path/filepath"
	"runtime"
	"runtime/pprof"
	"sort"
	"strings"
	"sync"
	"sync/atomic"
	"time"

	f3 "github.com/filecoin-project/go-f3"
	"github.com/filecoin-project/go-f3/certstore"
	"github.com/filecoin-project/go-f3/ec"
	"github.com/filecoin-project/go-f3/gpbft"
	"github.com/filecoin-project/go-f3/internal/clock"
	"github.com/filecoin-project/go-f3/internal/verif/vcommon"
	"github.com/filecoin-project/go-f3/internal/verif/vfix"
	"github.com/filecoin-project/go-f3/internal/writeaheadlog"
	"github.com/filecoin-project/go-f3/manifest"
	"github.com/ipfs/go-datastore"
	dssync "github.com/ipfs/go-datastore/sync"
	pubsub "github.com/libp2p/go-libp2p-pubsub"
	"github.com/libp2p/go-libp2p/core/host"
	"github.com/libp2p/go-libp2p/core/peer"
	mocknet "github.com/libp2p/go-libp2p/p2p/net/mock"
)

var bg = context.Background()

// wEntry reads the node's WAL (entries are CBOR GMessages).
type wEntry struct{ M gpbft.GMessage }

func (e *wEntry) WALEpoch() uint64                { return e.M.Vote.Instance }
func (e *wEntry) MarshalCBOR(w io.Writer) error   { return e.M.MarshalCBOR(w) }
func (e *wEntry) UnmarshalCBOR(r io.Reader) error { return e.M.UnmarshalCBOR(r) }

type slotKey struct {
	inst   uint64
	sender gpbft.ActorID
	round  uint64
	phase  gpbft.Phase
}

func (k slotKey) String() string {
	return fmt.Sprintf("i%d/s%d/r%d/%s", k.inst, k.sender, k.round, k.phase)
}

// world: process-wide libp2p/pubsub plumbing (one gossipsub instance; a topic is joined per node lifetime).
type world struct {
	h     host.Host
	ps    *pubsub.PubSub
	m     manifest.Manifest
	tbl   gpbft.PowerEntries
	ec    *fakeEC
	ctx   context.Context // carries a mock clock that never advances: the participant stays idle
	keys  vfix.Keys
	root  string
	nonce atomic.Uint64
	// hook: set per execution
	onWire func(data []byte)
}

func newWorld(root string) *world {
	w := &world{root: root, keys: vfix.NewKeys(4)}
	mn := mocknet.New()
	h, err := mn.GenPeer()
	if err != nil {
		panic(err)
	}
	w.h = h
	w.ps, err = pubsub.NewGossipSub(bg, h, pubsub.WithDefaultValidator(func(_ context.Context, _ peer.ID, msg *pubsub.Message) pubsub.ValidationResult {
		// the observer listens on the GPBFT topic (the chain-exchange topic carries no signed votes)
		if w.onWire != nil && msg.GetTopic() == w.m.PubSubTopic() {
			w.onWire(msg.Data)
		}
		return pubsub.ValidationAccept
	}))
	if err != nil {
		panic(err)
	}
	w.m = manifest.LocalDevnetManifest()
	w.m.NetworkName = "verif-c12"
	w.m.PubSub.CompressionEnabled = false
	w.m.PubSub.ChainCompressionEnabled = false
	w.m.EC.Finalize = true // production default; the finalize call is where the harness meets the finalize goroutine
	w.tbl = vfix.Canon(gpbft.PowerEntries{w.keys.Entry(1, gpbft.NewStoragePower(10), 1), w.keys.Entry(2, gpbft.NewStoragePower(10), 2)})
	w.ec = &fakeEC{tbl: w.tbl, arrived: make(chan struct{}), proceed: make(chan struct{})}
	w.ctx, _ = clock.WithMockClock(bg)
	return w
}

// fakeEC is the chain the node runs over: a fixed head, and a Finalize that parks the caller (the runner's
// finalize goroutine, host.go Start) until the harness lets it continue — the production goroutine is thereby
// stepped deterministically: certificate received -> [harness] -> purge -> trim.
type fakeEC struct {
	tbl     gpbft.PowerEntries
	arrived chan struct{}
	proceed chan struct{}
}

type fakeTS struct{ epoch int64 }

func (t fakeTS) String() string       { return fmt.Sprintf("ts%d", t.epoch) }
func (t fakeTS) Key() gpbft.TipSetKey { return []byte(fmt.Sprintf("g-%d", t.epoch)) }
func (t fakeTS) Beacon() []byte       { return []byte{1} }
func (t fakeTS) Epoch() int64         { return t.epoch }
func (t fakeTS) Timestamp() time.Time { return time.Unix(1700000000+30*t.epoch, 0) }

func (f *fakeEC) GetTipsetByEpoch(_ context.Context, epoch int64) (ec.TipSet, error) {
	return fakeTS{epoch}, nil
}
func (f *fakeEC) GetTipset(_ context.Context, k gpbft.TipSetKey) (ec.TipSet, error) {
	var e int64
	if _, err := fmt.Sscanf(string(k), "g-%d", &e); err != nil {
		return nil, fmt.Errorf("unknown tipset %q", k)
	}
	return fakeTS{e}, nil
}
func (f *fakeEC) GetHead(context.Context) (ec.TipSet, error) { return fakeTS{100}, nil }
func (f *fakeEC) GetParent(_ context.Context, t ec.TipSet) (ec.TipSet, error) {
	return fakeTS{t.Epoch() - 1}, nil
}
func (f *fakeEC) GetPowerTable(context.Context, gpbft.TipSetKey) (gpbft.PowerEntries, error) {
	return f.tbl, nil
}
func (f *fakeEC) Finalize(ctx context.Context, _ gpbft.TipSetKey) error {
	select {
	case f.arrived <- struct{}{}:
	case <-ctx.Done():
		return ctx.Err()
	}
	select {
	case <-f.proceed:
	case <-ctx.Done():
		return ctx.Err()
	}
	return nil
}

// exec is one execution of a history.
type exec struct {
	w         *world
	id        uint64
	cs        *certstore.Store // the node's certificate store (survives restarts of the node)
	ncert     uint64           // certificates 0..ncert-1 are in cs
	dir       string           // current WAL directory
	node      *f3.VerifRunner
	wire      map[slotKey][]string // signatures seen on the wire per slot (across all lifetimes)
	wireMax   uint64
	hasWire   bool
	lastImg   string // WAL image taken at the last publish ("" = none yet)
	nimg      int
	fail      string
	fp        string
	published bool // set by the hook during one Broadcast call
}

func (e *exec) bad(fp, f string, a ...any) {
	if e.fail == "" {
		e.fp, e.fail = fp, fmt.Sprintf(f, a...)
	}
}

func copyDir(src, dst string) {
	_ = os.RemoveAll(dst)
	if err := os.MkdirAll(dst, 0o777); err != nil {
		panic(err)
	}
	des, _ := os.ReadDir(src)
	for _, d := range des {
		b, err := os.ReadFile(filepath.Join(src, d.Name()))
		if err != nil {
			panic(err)
		}
		if err := os.WriteFile(filepath.Join(dst, d.Name()), b, 0o666); err != nil {
			panic(err)
		}
	}
}

func readWAL(dir string) []gpbft.GMessage {
	w, err := writeaheadlog.Open[wEntry, *wEntry](dir)
	if err != nil {
		return nil
	}
	es, _ := w.All()
	out := make([]gpbft.GMessage, len(es))
	for i := range es {
		out[i] = es[i].M
	}
	return out
}

func (e *exec) hook(data []byte) {
	var pm gpbft.PartialGMessage
	if err := pm.UnmarshalCBOR(bytes.NewReader(data)); err != nil {
		e.bad("wire-undecodable", "published data does not decode: %v", err)
		return
	}
	e.published = true
	m := pm.GMessage
	k := slotKey{m.Vote.Instance, m.Sender, m.Vote.Round, m.Vote.Phase}
	sig := string(m.Signature)
	// (3) recorded durably before published: the WAL as it is on disk right now must contain the message
	e.nimg++
	img := filepath.Join(e.w.root, fmt.Sprintf("x%d-img%d", e.id, e.nimg))
	copyDir(e.dir, img)
	found := false
	for _, wm := range readWAL(img) {
		if wm.Vote.Instance == m.Vote.Instance && wm.Sender == m.Sender && wm.Vote.Round == m.Vote.Round && wm.Vote.Phase == m.Vote.Phase && bytes.Equal(wm.Signature, m.Signature) {
			found = true
		}
	}
	if !found {
		e.bad("published-before-recorded", "message %s sig %q is on the wire but not in the write-ahead log at publish time", k, sig)
	}
	if e.lastImg != "" {
		_ = os.RemoveAll(e.lastImg)
	}
	e.lastImg = img
	// (2) never an older instance than one already broadcast for
	if e.hasWire && m.Vote.Instance < e.wireMax {
		e.bad("old-instance-on-wire", "message for instance %d published after a message for instance %d", m.Vote.Instance, e.wireMax)
	}
	if !e.hasWire || m.Vote.Instance > e.wireMax {
		e.wireMax, e.hasWire = m.Vote.Instance, true
	}
	// (1) never two signatures for one slot
	for _, s := range e.wire[k] {
		if s != sig {
			e.bad("self-equivocation-on-wire", "two differently signed messages for %s on the wire: %q and %q", k, s, sig)
		}
	}
	dup := false
	for _, s := range e.wire[k] {
		if s == sig {
			dup = true
		}
	}
	if !dup {
		e.wire[k] = append(e.wire[k], sig)
	}
}

func (e *exec) start() {
	n, err := f3.VerifNewRunner(e.w.ctx, e.cs, e.w.ec, e.w.ps, e.w.keys, e.w.m, e.dir, e.w.h.ID())
	if err != nil {
		e.bad("start-failed", "starting the node on WAL %s: %v", e.dir, err)
		return
	}
	e.node = n
	if e.ncert > 0 {
		// the finalize goroutine's subscription delivers the latest certificate as soon as the node starts
		e.settle(false, 1)
	}
}

// settle steps the runner's asynchronous reaction to a certificate to completion: the finalize goroutine is
// parked in fakeEC.Finalize; with msgsMutex held it is released, runs its WAL purge and queues on the mutex
// (together with the main loop's skip-forward, which reads the rebroadcast store, when the certificate is
// new); then the mutex is handed over until nobody is queued or waking on it.
func (e *exec) settle(locked bool, waiters int) {
	fail := func(what string) {
		fmt.Fprintf(os.Stderr, "equivmc: harness cannot step the finalize goroutine (%s); this is not a property violation\n", what)
		os.Exit(2)
	}
	if !locked {
		e.node.LockMsgs()
	}
	select {
	case <-e.w.ec.arrived:
	case <-time.After(10 * time.Minute):
		fail("certificate never reached ec.Finalize")
	}
	e.w.ec.proceed <- struct{}{}
	t0 := time.Now()
	for {
		if n, _ := e.node.MsgsWaiters(); n >= waiters {
			break
		}
		if time.Since(t0) > 10*time.Minute {
			fail("the goroutines handling the certificate never reached the rebroadcast store")
		}
		runtime.Gosched()
	}
	e.node.UnlockMsgs()
	for {
		e.node.LockMsgs()
		n, woken := e.node.MsgsWaiters()
		e.node.UnlockMsgs()
		if n == 0 && !woken {
			return
		}
		runtime.Gosched()
	}
}

// certify: the certificates up to and including instance `upto` arrive (one at a time, each fully handled).
func (e *exec) certify(upto uint64) {
	tc := vfix.TableCID(e.w.tbl)
	for e.ncert <= upto {
		i := e.ncert
		base := vfix.TipSet("g", int64(i), tc)
		base.Key = []byte(fmt.Sprintf("g-%d", i))
		head := vfix.TipSet("g", int64(i+1), tc)
		head.Key = []byte(fmt.Sprintf("g-%d", i+1))
		chain := &gpbft.ECChain{TipSets: []*gpbft.TipSet{base, head}}
		c := e.w.keys.Cert(e.w.m.NetworkName, i, chain, e.w.tbl, e.w.tbl, []int{0, 1})
		e.node.LockMsgs()
		if err := e.cs.Put(bg, c); err != nil {
			e.node.UnlockMsgs()
			panic(fmt.Sprintf("certstore put %d: %v", i, err))
		}
		e.ncert++
		e.settle(true, 2)
	}
}

func (e *exec) stop() {
	if e.node != nil {
		_ = e.node.Stop(bg)
		e.node = nil
	}
}

func newExec(w *world) *exec {
	e := &exec{w: w, id: w.nonce.Add(1), wire: map[slotKey][]string{}}
	e.dir = filepath.Join(w.root, fmt.Sprintf("x%d-wal0", e.id))
	_ = os.RemoveAll(e.dir)
	var err error
	e.cs, err = certstore.CreateStore(bg, dssync.MutexWrap(datastore.NewMapDatastore()), 0, w.tbl)
	if err != nil {
		panic(err)
	}
	w.onWire = e.hook
	e.start()
	return e
}

func (e *exec) cleanup() {
	e.stop()
	e.w.onWire = nil
	des, _ := os.ReadDir(e.w.root)
	pre := fmt.Sprintf("x%d-", e.id)
	for _, d := range des {
		if strings.HasPrefix(d.Name(), pre) {
			_ = os.RemoveAll(filepath.Join(e.w.root, d.Name()))
		}
	}
}

// op encoding:
//
//	b<inst><sender><round><phase:P|C><sig:a|b>   broadcast
//	r<inst><round><phase>                         rebroadcast request
//	R                                             clean restart (Stop, reopen same WAL)
//	K                                             crash-restart from the WAL image taken at the last publish
//	T<cut>                                        crash-restart from the current WAL with its last record torn (cut: 0 none of it, 1 one byte, 2 half, 3 all but one byte)
func phaseOf(c byte) gpbft.Phase {
	if c == 'C' {
		return gpbft.COMMIT_PHASE
	}
	return gpbft.PREPARE_PHASE
}

func (e *exec) mkMsg(inst uint64, sender gpbft.ActorID, round uint64, ph gpbft.Phase, sig byte) *gpbft.GMessage {
	tc := vfix.TableCID(nil)
	val := vfix.Chain(vfix.TipSet("g", 0, tc), string([]byte{'v', sig}), 1, tc) // a different EC head per signature
	if sig == '_' {
		val = &gpbft.ECChain{} // a vote for bottom (COMMIT when no PREPARE quorum came in time)
	}
	return &gpbft.GMessage{
		Sender:    sender,
		Vote:      gpbft.Payload{Instance: inst, Round: round, Phase: ph, Value: val, SupplementalData: gpbft.SupplementalData{PowerTable: tc}},
		Signature: []byte(fmt.Sprintf("sig-%c-x%d-%d.%d.%d.%d", sig, e.id, inst, sender, round, ph)),
	}
}

var bigValues = map[byte]*gpbft.ECChain{}

// bigValue: a chain of the maximum length whose tipset keys have the maximum length (about 100 KiB encoded).
func bigValue(sig byte) *gpbft.ECChain {
	if c, ok := bigValues[sig]; ok {
		return c
	}
	tc := vfix.TableCID(nil)
	c := vfix.Chain(vfix.TipSet("g", 0, tc), string([]byte{'V', sig}), gpbft.ChainMaxLen-1, tc)
	for i, t := range c.TipSets {
		k := bytes.Repeat([]byte{byte(i), sig}, gpbft.TipsetKeyMaxLen/2)
		t.Key = k
	}
	bigValues[sig] = c
	return c
}

func (e *exec) apply(op string) {
	if e.fail != "" {
		return
	}
	switch op[0] {
	case 'b':
		m := e.mkMsg(uint64(op[1]-'0'), gpbft.ActorID(op[2]-'0'), uint64(op[3]-'0'), phaseOf(op[4]), op[5])
		e.published = false
		_ = e.node.Broadcast(bg, m)
	case 'g', 'h':
		// g: sender 2 votes in rounds 10..20 of instance 7, each vote carrying a chain of the largest size; the log
		// file passes its rotation size with the last one. h: that last vote is requested again, signed differently.
		from, to, sig := uint64(10), uint64(20), byte('a')
		if op[0] == 'h' {
			from, sig = to, 'b'
		}
		for r := from; r <= to && e.fail == ""; r++ {
			m := e.mkMsg(7, 2, r, gpbft.PREPARE_PHASE, sig)
			m.Vote.Value = bigValue(sig)
			e.published = false
			_ = e.node.Broadcast(bg, m)
		}
	case 'r':
		_ = e.node.Rebroadcast(gpbft.Instant{ID: uint64(op[1] - '0'), Round: uint64(op[2] - '0'), Phase: phaseOf(op[3])})
	case 'f':
		// early network: the finality certificates of instances 0..3 arrive (nothing may be purged yet)
		e.certify(3)
	case 'F':
		// the finality certificates up to instance 6 arrive: the node purges its WAL below instance 1
		e.certify(6)
	case 'R':
		e.stop()
		e.start()
	case 'K':
		e.stop()
		nd := filepath.Join(e.w.root, fmt.Sprintf("x%d-walK%d", e.id, e.nimg))
		e.nimg++
		if e.lastImg != "" {
			copyDir(e.lastImg, nd)
		} else {
			_ = os.MkdirAll(nd, 0o777)
		}
		e.dir = nd
		e.start()
	case 'T':
		e.stop()
		nd := filepath.Join(e.w.root, fmt.Sprintf("x%d-walT%d", e.id, e.nimg))
		e.nimg++
		copyDir(e.dir, nd)
		tearLast(nd, int(op[1]-'0'))
		e.dir = nd
		e.start()
	}
}

// tearLast models a crash in the middle of a WAL append (which, by the filter -> append -> publish order,
// is a crash before the message was published): the first bytes of a record are left at the end of the
// newest log file (a new file if there is none). mode: 1 one byte, 2 half, 3 all but one byte.
func tearLast(dir string, mode int) {
	m := &gpbft.GMessage{Sender: 1, Vote: gpbft.Payload{Instance: 2, Round: 1, Phase: gpbft.COMMIT_PHASE, Value: &gpbft.ECChain{}, SupplementalData: gpbft.SupplementalData{PowerTable: vfix.TableCID(nil)}}, Signature: []byte("torn-record")}
	var buf bytes.Buffer
	if err := m.MarshalCBOR(&buf); err != nil {
		panic(err)
	}
	rec := buf.Bytes()
	cut := map[int]int{1: 1, 2: len(rec) / 2, 3: len(rec) - 1}[mode]
	des, _ := os.ReadDir(dir)
	var names []string
	for _, d := range des {
		names = append(names, d.Name())
	}
	sort.Strings(names)
	p := filepath.Join(dir, "9999-12-31T00:00:00Z.wal.cbor")
	if len(names) > 0 {
		p = filepath.Join(dir, names[len(names)-1])
	}
	f, err := os.OpenFile(p, os.O_CREATE|os.O_WRONLY|os.O_APPEND, 0o666)
	if err != nil {
		panic(err)
	}
	_, _ = f.Write(rec[:cut])
	_ = f.Close()
}

func (e *exec) key() string {
	h := sha256.New()
	var ws []string
	for _, m := range readWAL(e.dir) {
		ws = append(ws, fmt.Sprintf("%d.%d.%d.%d.%c", m.Vote.Instance, m.Sender, m.Vote.Round, m.Vote.Phase, m.Signature[4]))
	}
	sort.Strings(ws)
	fmt.Fprint(h, ws, "|")
	// on-disk structure: per log file (in name order) the number of bytes after its last complete record
	// (a torn tail is invisible to readers but not to everything that looks at the file)
	des, _ := os.ReadDir(e.dir)
	for _, d := range des {
		data, _ := os.ReadFile(filepath.Join(e.dir, d.Name()))
		rd := bytes.NewReader(data)
		good, nrec := 0, 0
		for {
			var m gpbft.GMessage
			if err := m.UnmarshalCBOR(rd); err != nil {
				break
			}
			good = len(data) - rd.Len()
			nrec++
		}
		fmt.Fprintf(h, "f%d+%d,", nrec, len(data)-good)
	}
	fmt.Fprint(h, "|")
	var wi []string
	for k, sigs := range e.wire {
		for _, s := range sigs {
			wi = append(wi, k.String()+string(s[4]))
		}
	}
	sort.Strings(wi)
	fmt.Fprint(h, wi, e.wireMax, "|")
	st := ""
	if e.node != nil {
		st = e.node.DumpState()
	}
	// signatures embed the execution id: normalise
	st = strings.ReplaceAll(st, fmt.Sprintf("%x", fmt.Sprintf("-x%d-", e.id)), "")
	fmt.Fprint(h, st, "|c", e.ncert, "|")
	// image at last publish
	var im []string
	if e.lastImg != "" {
		for _, m := range readWAL(e.lastImg) {
			im = append(im, fmt.Sprintf("%d.%d.%d.%d.%c", m.Vote.Instance, m.Sender, m.Vote.Round, m.Vote.Phase, m.Signature[4]))
		}
	}
	sort.Strings(im)
	fmt.Fprint(h, im)
	return string(h.Sum(nil))
}

func alphabet(thorough bool) []string {
	var ops []string
	insts := []byte{'7', '8'}
	senders := []byte{'1', '2'}
	slots := []string{"0P", "1P"}
	if thorough {
		slots = []string{"0P", "0C", "1P"}
	}
	for _, i := range insts {
		for _, s := range senders {
			for _, sl := range slots {
				if !thorough && sl != "0P" && (s != '1' || i != '7') {
					continue // quick: the second slot only for sender 1 in instance 1
				}
				for _, sig := range []byte{'a', 'b'} {
					ops = append(ops, fmt.Sprintf("b%c%c%s%c", i, s, sl, sig))
				}
			}
		}
		ops = append(ops, fmt.Sprintf("r%c0P", i))
		if thorough {
			ops = append(ops, fmt.Sprintf("r%c1P", i))
		}
	}
	ops = append(ops, "R", "K", "T2", "f", "F")
	if thorough {
		ops = append(ops, "T1", "T3")
	}
	return ops
}

func build(w *world, hist []string) *exec {
	e := newExec(w)
	for _, op := range hist {
		e.apply(op)
	}
	return e
}

func main() {
	prop := flag.String("prop", "C12", "")
	replay := flag.String("replay", "", "replay artefact")
	cpuprof := flag.String("cpuprofile", "", "write a CPU profile (debugging aid)")
	flag.Parse()
	if *cpuprof != "" {
		f, _ := os.Create(*cpuprof)
		_ = pprof.StartCPUProfile(f)
		time.AfterFunc(40*time.Second, func() { pprof.StopCPUProfile(); f.Close(); os.Exit(0) })
	}
	_ = prop
	root := vcommon.ShmDir("c12")
	if _, err := os.Stat("/dev/shm"); err != nil {
		root = filepath.Join(vcommon.Dir(), ".work", fmt.Sprintf("c12-%d", os.Getpid()))
	}
	_ = os.MkdirAll(root, 0o777)
	w := newWorld(root)
	if *replay != "" {
		rc := doReplay(w, *replay)
		_ = os.RemoveAll(root)
		os.Exit(rc)
	}
	chk := vcommon.NewCheck("C12", "model_checking")
	thorough := vcommon.Thorough()
	depth, maxStates := 6, 60000
	if thorough {
		depth, maxStates = 8, 600000
	}
	nw := runtime.NumCPU()
	worlds := []*world{w}
	for i := 1; i < nw; i++ {
		worlds = append(worlds, newWorld(filepath.Join(root, fmt.Sprintf("w%d", i))))
	}
	type result struct {
		hist []string
		key  string
		fp   string
		fail string
	}
	// Two searches over the same real runner: first a focused alphabet (one slot, two signatures, one second
	// instance, every restart/crash/certificate event) that reaches the deeper restart histories within the
	// budget, then the full alphabet.
	type phase struct {
		name   string
		ops    []string
		depth  int
		budget time.Duration
	}
	focused := []string{"b710Pa", "b710Pb", "b810Pa", "r70P", "R", "K", "T2", "f", "F"}
	// rounds: one instance that goes through rounds 0..3 of one step, with conflicting requests for old and new
	// rounds and restarts in between (a long instance must stay protected in all its rounds)
	rounds := []string{"b710Pa", "b710Pb", "b711Pa", "b712Pa", "b712Pb", "b713Pa", "b710C_", "b710Ca", "R", "K"}
	phases := []phase{{"focused", focused, 7, 45 * time.Second}, {"rounds", rounds, 5, 25 * time.Second}, {"full", alphabet(false), depth, 80 * time.Second}}
	if thorough {
		phases = []phase{{"focused", focused, 9, 8 * time.Minute}, {"rounds", rounds, 7, 4 * time.Minute}, {"full", alphabet(true), depth, 13 * time.Minute}}
	}
	// directed histories around a write-ahead-log file that grows past its rotation size (11 votes carrying
	// 128-tipset chains with 760-byte keys), the vote that crosses the size being requested again with another
	// signature after every kind of restart
	for _, h := range [][]string{{"g", "R", "h"}, {"g", "b710Pa", "R", "h"}, {"g", "K", "h"}, {"g", "T2", "h"}, {"g", "R", "R", "h"}, {"g", "h"}} {
		if chk.Violations() > 0 {
			break
		}
		e := build(w, h)
		if e.fail != "" {
			chk.Violation(e.fp, fmt.Sprintf("history %v: %s", h, e.fail), map[string]any{"history": h})
		}
		e.cleanup()
		chk.Add("directed_histories", 1)
	}
	var states, transitions int64
	exhaustive := true
	allSeen := map[string]bool{}
	for _, ph := range phases {
		if chk.Violations() > 0 {
			break
		}
		ops := ph.ops
		depth := ph.depth
		e0 := build(w, nil)
		seen := map[string]bool{e0.key(): true}
		e0.cleanup()
		frontier := [][]string{nil}
		states++
		done := 0
		dl := vcommon.NewDeadline(ph.budget)
		for d := 1; d <= depth && len(frontier) > 0 && chk.Violations() == 0; d++ {
			// expand the whole level in parallel (one world = one libp2p host + gossipsub per worker)
			type job struct{ hist []string }
			var jobs []job
			for _, hist := range frontier {
				for _, op := range ops {
					jobs = append(jobs, job{append(append([]string{}, hist...), op)})
				}
			}
			results := make([]result, len(jobs))
			var nextJob atomic.Int64
			var timedOut atomic.Bool
			var wg sync.WaitGroup
			for wi := 0; wi < nw; wi++ {
				wg.Add(1)
				go func(wd *world) {
					defer wg.Done()
					for {
						j := int(nextJob.Add(1)) - 1
						if j >= len(jobs) {
							return
						}
						if dl.Expired() {
							timedOut.Store(true)
							return
						}
						e := build(wd, jobs[j].hist)
						r := result{hist: jobs[j].hist, fp: e.fp, fail: e.fail}
						if e.fail == "" {
							r.key = e.key()
						}
						e.cleanup()
						results[j] = r
					}
				}(worlds[wi])
			}
			wg.Wait()
			var next [][]string
			for _, r := range results {
				if r.hist == nil {
					continue
				}
				transitions++
				if r.fail != "" {
					chk.Violation(r.fp, fmt.Sprintf("history %v: %s", r.hist, r.fail), map[string]any{"history": r.hist})
					break
				}
				if !seen[r.key] {
					if len(seen) >= maxStates {
						exhaustive = false
						continue
					}
					seen[r.key] = true
					states++
					next = append(next, r.hist)
					if states%211 == 0 {
						chk.Sample(strings.Join(r.hist, " "))
					}
				}
			}
			if timedOut.Load() {
				exhaustive = false
				break
			}
			frontier = next
			done = d
		}
		chk.Set("depth_completed_"+ph.name, done)
		chk.Set("ops_"+ph.name, len(ops))
		for k := range seen {
			allSeen[k] = true
		}
	}
	chk.Set("states", states)
	chk.Set("transitions", transitions)
	chk.Set("traces_validated_against_impl", transitions)
	chk.Set("exhaustive", exhaustive && chk.Violations() == 0)
	for k := range allSeen {
		chk.Distinct(k)
	}
	chk.Sample("b710Pa K b710Pb")
	if chk.Violations() == 0 {
		pureFilter(chk, w, thorough)
	}
	_ = os.RemoveAll(root)
	chk.Set("rule", "three searches (focused: one slot, every restart/crash/certificate event, depth 7/9; rounds: rounds 0..3 of one slot and a COMMIT for bottom vs for a value, with conflicting requests and restarts, depth 5/7; full alphabet) plus directed histories around a log file that grows past its rotation size with 100 KiB votes. BFS over histories of {broadcast(instance 7|8, sender 1|2, slot (0,PREPARE)|(0,COMMIT)|(1,PREPARE), signature a|b), rebroadcast(instance, slot), arrival of the finality certificates up to instance 3 (early network) | up to instance 6 — put into the node's certificate store, handled by the production finalize goroutine (purge, trim) and skip-forward, stepped to completion —, clean restart, crash-restart from the WAL image taken at the last publish, crash in the middle of an append (torn record of 1 byte / half / all-but-one byte left in the log)} on the production runner (newRunner, Start, BroadcastMessage, RequestRebroadcast, Stop; mock clock that never advances, so the participant itself stays idle) over a real WAL directory and a real gossipsub topic; states deduplicated on (WAL content, wire set, filter + rebroadcast store, image at last publish); the pure filter is explored exhaustively (all broadcast sequences over 2 instances x 2 slots x 2 signatures to depth 6/7) against a reference and the two wire invariants")
	chk.Assume("no storage errors, no second node with the same identity on the runner path; inbound topic validator removed (outbound path under test); messages carry opaque signatures")
	chk.Finish()
}

// ---- pure filter ------------------------------------------------------------------------------------------------

func pureFilter(chk *vcommon.Check, w *world, thorough bool) {
	type fop struct {
		recv bool
		peer int
		inst uint64
		slot int
		sig  byte
	}
	var ops []fop
	for _, inst := range []uint64{1, 2} {
		for slot := 0; slot < 2; slot++ {
			for _, sig := range []byte{'a', 'b'} {
				ops = append(ops, fop{false, 0, inst, slot, sig})
				// Remote receives (ProcessReceive) are deliberately NOT part of the alphabet: they only arise when
				// another node uses the same identity, which the property excludes, and production code never
				// calls ProcessReceive in this tree.
			}
		}
	}
	local := w.h.ID()
	peers := []peer.ID{local, peer.ID("\x00\x01low-peer"), peer.ID("\xff\xffhigh-peer")}
	depth := 6
	if thorough {
		depth = 7
	}
	var n, states int64
	var rec func(hist []fop)
	rec = func(hist []fop) {
		if chk.Violations() > 0 {
			return
		}
		// replay
		f := f3.VerifNewEquivFilter(local)
		sent := map[[2]uint64]byte{} // (inst, slot) -> signature allowed on the wire
		var maxInst uint64
		anyRecv := false
		cur := uint64(0)
		seenLocal := map[[2]uint64]byte{}
		for i, o := range hist {
			m := &gpbft.GMessage{Sender: 1, Vote: gpbft.Payload{Instance: o.inst, Round: uint64(o.slot), Phase: gpbft.PREPARE_PHASE}, Signature: []byte{o.sig}}
			if o.recv {
				f.ProcessReceive(peers[o.peer], m)
				anyRecv = true
				continue
			}
			got := f.ProcessBroadcast(m)
			n++
			k := [2]uint64{o.inst, uint64(o.slot)}
			if got {
				if s, ok := sent[k]; ok && s != o.sig {
					chk.Violation("filter-allows-self-equivocation", fmt.Sprintf("filter history %v: broadcast #%d allowed although a different signature for the slot was allowed before", hist, i), map[string]any{"filter_history": fmt.Sprint(hist)})
					return
				}
				if o.inst < maxInst {
					chk.Violation("filter-allows-old-instance", fmt.Sprintf("filter history %v: broadcast #%d for instance %d allowed after instance %d", hist, i, o.inst, maxInst), map[string]any{"filter_history": fmt.Sprint(hist)})
					return
				}
				sent[k] = o.sig
				if o.inst > maxInst {
					maxInst = o.inst
				}
			}
			if !anyRecv {
				// reference (no remote interference): allowed iff not a past instance and not conflicting
				if o.inst > cur {
					cur = o.inst
					seenLocal = map[[2]uint64]byte{}
				}
				want := o.inst >= cur
				if s, ok := seenLocal[k]; want && ok && s != o.sig {
					want = false
				}
				if want {
					if _, ok := seenLocal[k]; !ok {
						seenLocal[k] = o.sig
					}
				}
				if got != want {
					chk.Violation("filter-differs-from-reference", fmt.Sprintf("filter history %v: broadcast #%d returned %v, reference %v", hist, i, got, want), map[string]any{"filter_history": fmt.Sprint(hist)})
					return
				}
			}
		}
		states++
		if len(hist) == depth {
			return
		}
		for _, o := range ops {
			rec(append(hist, o))
		}
	}
	rec(nil)
	chk.Add("states", states)
	chk.Add("transitions", n)
	chk.Set("filter_histories", states)
}

func doReplay(w *world, path string) int {
	raw, err := os.ReadFile(path)
	if err != nil {
		fmt.Fprintln(os.Stderr, err)
		return 2
	}
	var doc struct {
		Property string `json:"property"`
		Replay   struct {
			History []string `json:"history"`
		} `json:"replay"`
	}
	if err := json.Unmarshal(raw, &doc); err != nil || len(doc.Replay.History) == 0 {
		fmt.Println("artefact without a runner history: run ./check C12")
		return 0
	}
	e := build(w, doc.Replay.History)
	defer e.cleanup()
	if e.fail != "" {
		fmt.Printf("VIOLATION property=C12 replay=%s\n  %s: %s\n", path, e.fp, e.fail)
		return 1
	}
	fmt.Println("no violation on this tree")
	return 0
}
