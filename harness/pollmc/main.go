// pollmc — C20: the real Subscriber polling loop under a mock clock, all production patterns per tick up to
// a depth, steady/bursty/stalled long runs; progress and waits compared with an independent reference.
package main

import (
	"bytes"
	"context"
	"flag"
	"fmt"
	"math"
	"runtime"
	"strings"
	"sync"
	"sync/atomic"
	"time"

	"github.com/filecoin-project/go-f3/certexchange"
	"github.com/filecoin-project/go-f3/certexchange/polling"
	"github.com/filecoin-project/go-f3/certs"
	"github.com/filecoin-project/go-f3/certstore"
	"github.com/filecoin-project/go-f3/gpbft"
	"github.com/filecoin-project/go-f3/internal/clock"
	"github.com/filecoin-project/go-f3/internal/verif/vcommon"
	"github.com/filecoin-project/go-f3/internal/verif/vfix"
	"github.com/filecoin-project/go-f3/internal/verif/vnet"
	"github.com/ipfs/go-datastore"
	dssync "github.com/ipfs/go-datastore/sync"
	"github.com/libp2p/go-libp2p/core/peer"
	mocknet "github.com/libp2p/go-libp2p/p2p/net/mock"
	"go.opentelemetry.io/otel"
	"go.opentelemetry.io/otel/metric"
	"go.opentelemetry.io/otel/metric/noop"
)

const nn = gpbft.NetworkName("verif-c20")

var keys = vfix.NewKeys(8)

// ---- metric hook: the run loop records the wait right after re-arming its timer ------------------------------

type worldKey struct{}

type hookProvider struct{ noop.MeterProvider }
type hookMeter struct{ noop.Meter }
type hookGauge struct{ noop.Float64Gauge }

func (hookProvider) Meter(string, ...metric.MeterOption) metric.Meter { return hookMeter{} }
func (hookMeter) Float64Gauge(name string, _ ...metric.Float64GaugeOption) (metric.Float64Gauge, error) {
	if name == "f3_certexchange_polling_predicted_interval" {
		return hookGauge{}, nil
	}
	return noop.Float64Gauge{}, nil
}
func (hookGauge) Record(ctx context.Context, v float64, _ ...metric.RecordOption) {
	if w, ok := ctx.Value(worldKey{}).(*world); ok {
		w.waits <- time.Duration(math.Round(v * 1e9))
	}
}

// ---- certificates -----------------------------------------------------------------------------------------------

var (
	chain  []*certs.FinalityCertificate
	blobs  [][]byte
	table0 gpbft.PowerEntries
)

func initChain(n int) {
	table0 = vfix.Canon(gpbft.PowerEntries{keys.Entry(1, gpbft.NewStoragePower(50), 1), keys.Entry(2, gpbft.NewStoragePower(40), 2), keys.Entry(3, gpbft.NewStoragePower(30), 3)})
	head := vfix.TipSet("gen", 0, vfix.TableCID(table0))
	for i := 0; i < n; i++ {
		c := &gpbft.ECChain{TipSets: []*gpbft.TipSet{head, vfix.TipSet("t", head.Epoch+1, vfix.TableCID(table0))}}
		crt := keys.Cert(nn, uint64(i), c, table0, table0, vfix.MinimalQuorum(table0))
		chain = append(chain, crt)
		var b bytes.Buffer
		_ = crt.MarshalCBOR(&b)
		blobs = append(blobs, b.Bytes())
		head = c.Head()
	}
}

// ---- world ------------------------------------------------------------------------------------------------------

type settings struct {
	Min, Initial, Max time.Duration
}

type world struct {
	set      settings
	clk      *clock.Mock
	store    *certstore.Store
	sub      *polling.Subscriber
	peerHas  []int // certificates each peer holds
	reqTime  time.Duration
	during   int // certificates to put into the local store while the next request is in flight
	peerFail []bool
	waits    chan time.Duration
	cancel   context.CancelFunc
	done     chan error
	discover chan peer.ID
	ref      *refPredictor
	lastNext uint64
	start    time.Time
	gateMu   sync.Mutex
	mn       interface{ Close() error }
	late     []peer.ID
	lagBy    []int         // per peer: how many certificates it trails the production by (nil: none trails)
	gate     chan struct{} // closed once the harness' own clock.Add has returned (two concurrent Adds would race)
}

func (w *world) waitGate() {
	w.gateMu.Lock()
	g := w.gate
	w.gateMu.Unlock()
	if g != nil {
		<-g
	}
}

func newWorld(set settings, npeers int, running bool) *world {
	w := &world{set: set, waits: make(chan time.Duration, 4), peerHas: make([]int, npeers), peerFail: make([]bool, npeers)}
	mn, hs := vnet.Net(1 + npeers)
	w.mn = mn
	ctx, clk := clock.WithMockClock(context.Background())
	ctx = context.WithValue(ctx, worldKey{}, w)
	w.clk = clk
	w.start = clk.Now()
	var err error
	w.store, err = certstore.CreateStore(ctx, dssync.MutexWrap(datastore.NewMapDatastore()), 0, table0)
	if err != nil {
		panic(err)
	}
	for i := 0; i < npeers; i++ {
		i := i
		r := &vnet.Responder{Host: hs[1+i], NN: nn}
		r.Answer = func(req certexchange.Request) vnet.Reply {
			rep := vnet.Reply{Pending: uint64(w.peerHas[i])}
			if w.peerFail[i] {
				rep.Reset = true
				return rep
			}
			if w.reqTime > 0 || w.during > 0 {
				d, k := w.reqTime, w.during
				w.during = 0
				rep.Before = func() {
					if k > 0 {
						w.produce(k, true)
					}
					if d > 0 {
						w.waitGate()
						w.clk.Add(d)
					}
				}
			}
			for k := req.FirstInstance; k < uint64(w.peerHas[i]) && uint64(len(rep.Blobs)) < req.Limit && len(rep.Blobs) < 256; k++ {
				rep.Blobs = append(rep.Blobs, blobs[k])
			}
			return rep
		}
		r.Start()
	}
	w.sub = &polling.Subscriber{
		Client:              certexchange.Client{Host: hs[0], NetworkName: nn},
		Store:               w.store,
		SignatureVerifier:   keys,
		InitialPollInterval: set.Initial,
		MaximumPollInterval: set.Max,
		MinimumPollInterval: set.Min,
	}
	w.discover = make(chan peer.ID)
	if err := w.sub.VerifInit(ctx, w.discover); err != nil {
		panic(err)
	}
	w.ref = newRefPredictor(set.Min, set.Initial, set.Max)
	if running {
		rctx, cancel := context.WithCancel(ctx)
		w.cancel = cancel
		w.done = make(chan error, 1)
		go func() { w.done <- w.sub.VerifRun(rctx) }()
		// the unbuffered send completes only once the loop is in its select, i.e. after the timer was armed
		for i := 0; i < npeers; i++ {
			if lateDiscovery && i > 0 {
				w.late = append(w.late, hs[1+i].ID()) // discovered after the first tick (see discoverLate)
				continue
			}
			w.discover <- hs[1+i].ID()
		}
	} else {
		for i := 0; i < npeers; i++ {
			w.sub.VerifPeerSeen(hs[1+i].ID())
		}
	}
	return w
}

// lateDiscovery: set while a world is created whose peers 1.. become known to the subscriber only after its first
// tick (a peer population that grows).
var lateDiscovery bool

func (w *world) discoverLate() {
	for _, id := range w.late {
		w.discover <- id
	}
	w.late = nil
}

func (w *world) stop() {
	if w.cancel != nil {
		w.cancel()
		select {
		case <-w.done:
		case <-time.After(10 * time.Second):
		}
	}
	if w.mn != nil {
		_ = w.mn.Close() // the hosts of a finished world (goroutines, buffers) must not pile up over a long run
		w.mn = nil
	}
}

func (w *world) latestNext() uint64 {
	if l := w.store.Latest(); l != nil {
		return l.GPBFTInstance + 1
	}
	return 0
}

// produce k certificates: locally (into the client's own store) or at every peer.
func (w *world) produce(k int, local bool) {
	if k == 0 {
		return
	}
	if local {
		n := w.latestNext()
		for i := 0; i < k; i++ {
			if err := w.store.Put(context.Background(), chain[n+uint64(i)]); err != nil {
				panic(err)
			}
		}
		return
	}
	top := int(w.latestNext())
	for _, h := range w.peerHas {
		if h > top {
			top = h
		}
	}
	for i := range w.peerHas {
		w.peerHas[i] = top + k
		if i < len(w.lagBy) {
			w.peerHas[i] = max(0, top+k-w.lagBy[i]) // a peer that always trails what has been produced
		}
	}
}

// ---- reference predictor (the documented rules of predictor.go) ------------------------------------------------

type refPredictor struct {
	min, max        time.Duration
	interval        time.Duration
	wasIncreasing   bool
	exploreDistance time.Duration
	backoff         time.Duration
}

func newRefPredictor(min, def, max time.Duration) *refPredictor {
	return &refPredictor{min: min, max: max, interval: def, exploreDistance: def / 2}
}

func (p *refPredictor) update(progress uint64) time.Duration {
	if p.backoff > 0 {
		if progress > 0 {
			p.backoff = 0
		}
	} else if progress != 1 {
		switch {
		case p.wasIncreasing == (progress > 1):
			p.exploreDistance /= 3
		case progress <= 2:
			p.exploreDistance *= 2
		default:
			p.interval /= time.Duration(progress)
			p.exploreDistance = p.interval / 2
		}
		if p.exploreDistance < p.min/100 {
			p.exploreDistance = p.min / 100
		} else if p.exploreDistance > p.max/2 {
			p.exploreDistance = p.max / 2
		}
		if progress == 0 {
			p.backoff = p.interval
			p.interval += p.exploreDistance
			p.wasIncreasing = true
		} else {
			p.interval -= p.exploreDistance
			p.wasIncreasing = false
		}
		if p.interval < p.min {
			p.interval = p.min
		} else if p.interval > p.max {
			p.interval = p.max
		}
	}
	next := p.interval
	if p.backoff > 0 {
		next = p.backoff
		p.backoff = min(2*p.backoff, 10*p.max)
	}
	return next
}

// ---- one tick of the running loop ---------------------------------------------------------------------------------

type tickObs struct {
	pollTime time.Time
	now      time.Time
	wait     time.Duration
	progress uint64
	interval time.Duration
}

const tol = 2 * time.Microsecond

// tick advances the mock clock to the loop's timer, waits for the loop to re-arm, and checks the wait.
func (w *world) tick(nextFire time.Time) (tickObs, string, string) {
	var o tickObs
	before := w.lastNext
	d := nextFire.Sub(w.clk.Now())
	if d < 0 {
		d = 0
	}
	g := make(chan struct{})
	w.gateMu.Lock()
	w.gate = g
	w.gateMu.Unlock()
	w.clk.Add(d)
	close(g)
	o.pollTime = nextFire
	select {
	case o.wait = <-w.waits:
	case err := <-w.done:
		return o, "subscriber-loop-exited", fmt.Sprintf("the polling loop exited: %v", err)
	case <-time.After(60 * time.Second):
		return o, "", "TIMEOUT"
	}
	o.now = w.clk.Now()
	after := w.sub.VerifNextInstance()
	o.progress = after - before
	w.lastNext = after
	o.interval = w.ref.update(o.progress)
	base := o.pollTime.Add(o.interval).Sub(o.now)
	if base < 0 {
		base = 0
	}
	ext := o.wait - base
	reqTime := o.now.Sub(o.pollTime)
	switch {
	case ext < -tol:
		return o, "wait-shorter-than-predicted-interval", fmt.Sprintf("store advanced by %d, the predicted interval is %v, so the next poll is due in %v, but the loop waits only %v", o.progress, o.interval, base, o.wait)
	case ext > reqTime+tol:
		return o, "wait-extended-beyond-request-time", fmt.Sprintf("store advanced by %d, predicted interval %v, next poll due in %v; the loop waits %v: extended by %v although its requests took %v", o.progress, o.interval, base, o.wait, ext, reqTime)
	case ext > o.interval/2+tol:
		return o, "wait-extended-beyond-half-interval", fmt.Sprintf("predicted interval %v, wait extended by %v", o.interval, ext)
	}
	return o, "", ""
}

type step struct {
	K     int  `json:"certs"`
	Local bool `json:"local"`
	Req   int  `json:"request_time_quarters"` // request time in quarters of the initial interval (0, 1, 4)
	Fail  bool `json:"peer0_fails,omitempty"`
	// During: the K certificates arrive in the node's own store while its first request of the round is in flight
	// (instead of before the tick); the peers do not have them.
	During bool `json:"local_during_request,omitempty"`
	// Overlap: the K certificates appear at the peers before the tick, and the first Overlap of them also reach the
	// node's own store (its own GPBFT finalizes those instances) while its first request of the round is in flight.
	Overlap int `json:"first_n_also_local_during_request,omitempty"`
}

func (s step) String() string {
	src := "peer"
	if s.Local {
		src = "local"
	}
	f := ""
	if s.Fail {
		f = "!fail"
	}
	if s.During {
		src = "local-during-request"
	}
	if s.Overlap > 0 {
		src = fmt.Sprintf("peer+first-%d-local-during-request", s.Overlap)
	}
	return fmt.Sprintf("%d@%s/req%d%s", s.K, src, s.Req, f)
}

func stepsStr(ss []step) string {
	var out []string
	for _, s := range ss {
		out = append(out, s.String())
	}
	return strings.Join(out, " ")
}

// runSequence drives the running loop through the per-tick production pattern.
func runSequence(set settings, npeers int, seq []step) (fp, what string, timedOut bool) {
	w := newWorld(set, npeers, true)
	defer w.stop()
	next := w.start.Add(set.Initial)
	for i, st := range seq {
		if st.During {
			w.during = st.K
		} else {
			w.produce(st.K, st.Local)
			w.during = st.Overlap
		}
		w.reqTime = time.Duration(st.Req) * set.Initial / 4
		w.peerFail[0] = st.Fail
		o, fp, what := w.tick(next)
		if what == "TIMEOUT" {
			return "", "", true
		}
		if fp != "" {
			return fp, fmt.Sprintf("settings %+v, %d peers, ticks [%s], tick #%d: %s", set, npeers, stepsStr(seq), i, what), false
		}
		next = o.now.Add(o.wait)
	}
	return "", "", false
}

func main() {
	prop := flag.String("prop", "C20", "")
	replay := flag.String("replay", "", "")
	flag.Parse()
	_, _ = prop, replay
	otel.SetMeterProvider(hookProvider{})
	initChain(1200)
	chk := vcommon.NewCheck("C20", "model_checking")
	thorough := vcommon.Thorough()

	sets := []settings{
		{10 * time.Second, 30 * time.Second, 120 * time.Second},
		{1 * time.Second, 10 * time.Second, 600 * time.Second},
		{5 * time.Second, 5 * time.Second, 20 * time.Second},
	}

	// ---- part 1: a polling round reports exactly the store advance (synchronous calls)
	var evals int64
	{
		ks := []int{0, 1, 2, 5}
		var seqs [][]step
		var rec func(cur []step)
		rec = func(cur []step) {
			if len(cur) > 0 {
				seqs = append(seqs, append([]step{}, cur...))
			}
			if len(cur) == 3 {
				return
			}
			for _, k := range ks {
				for _, loc := range []bool{false, true} {
					rec(append(cur, step{K: k, Local: loc}))
				}
			}
			rec(append(cur, step{K: 1, During: true}))
			rec(append(cur, step{K: 2, Overlap: 1}))
			rec(append(cur, step{K: 5, Overlap: 2}))
		}
		rec(nil)
		for _, npeers := range []int{1, 2} {
			for _, seq := range seqs {
				w := newWorld(sets[0], npeers, false)
				ctx := context.WithValue(context.Background(), worldKey{}, (*world)(nil))
				for i, st := range seq {
					evals++
					if st.During {
						w.during = st.K
					} else {
						w.produce(st.K, st.Local)
						w.during = st.Overlap
					}
					if npeers == 2 && i == 1 {
						w.peerHas[1] = max(0, w.peerHas[1]-1) // a lagging peer
					}
					before := w.sub.VerifNextInstance()
					cu, err := w.sub.VerifCatchUp(ctx)
					if err != nil {
						panic(err)
					}
					mid := w.sub.VerifNextInstance()
					rep := map[string]any{"kind": "poll-progress", "peers": npeers, "ticks": stepsStr(seq), "tick": i}
					if cu != mid-before {
						chk.Violation("catchup-progress-not-store-advance", fmt.Sprintf("ticks [%s] #%d: CatchUp reported %d, next instance advanced by %d", stepsStr(seq), i, cu, mid-before), rep)
						chk.Finish()
					}
					pr, _, err := w.sub.VerifPoll(ctx)
					if err != nil {
						panic(err)
					}
					after := w.sub.VerifNextInstance()
					if storeNext := w.latestNext(); after > storeNext || (after != storeNext && !st.During) {
						// (a certificate that reached the store while the last request was in flight is picked up by the next catch-up)
						chk.Violation("poller-next-instance-not-store", fmt.Sprintf("ticks [%s] #%d: poller next instance %d, store next %d", stepsStr(seq), i, after, storeNext), rep)
						chk.Finish()
					}
					if pr != after-mid {
						chk.Violation("poll-progress-not-store-advance", fmt.Sprintf("ticks [%s] #%d (%d peers): the polling round reported progress %d but the store advanced by %d instances", stepsStr(seq), i, npeers, pr, after-mid), rep)
						chk.Finish()
					}
					chk.Distinct(fmt.Sprintf("p1/%d/%s/%d", npeers, stepsStr(seq[:i+1]), pr))
				}
				w.stop()
			}
		}
		chk.Set("poll_round_cases", evals)
	}

	// ---- part 2: the running loop, every per-tick pattern up to the depth
	depth := 3
	if thorough {
		depth = 4
	}
	var menu []step
	for _, k := range []int{0, 1, 2, 5} {
		for _, loc := range []bool{false, true} {
			for _, rq := range []int{0, 1, 4} {
				if loc && rq != 0 {
					continue // request time only matters when a peer is asked
				}
				menu = append(menu, step{K: k, Local: loc, Req: rq})
			}
		}
	}
	menu = append(menu, step{K: 1, Fail: true}, step{K: 0, Fail: true}, step{K: 1, During: true, Req: 1}, step{K: 1, During: true}, step{K: 2, Overlap: 1})
	var seqs [][]step
	var rec func(cur []step)
	rec = func(cur []step) {
		if len(cur) == depth {
			seqs = append(seqs, append([]step{}, cur...))
			return
		}
		for _, m := range menu {
			rec(append(cur, m))
		}
	}
	rec(nil)
	type job struct {
		set    settings
		npeers int
		seq    []step
	}
	var jobs []job
	for si, set := range sets {
		for _, np := range []int{1, 2} {
			if !thorough && (si > 0 && np > 1) {
				continue
			}
			for _, s := range seqs {
				jobs = append(jobs, job{set, np, s})
			}
		}
	}
	var next, ticks, timeouts atomic.Int64
	var stop atomic.Bool
	var mu sync.Mutex
	var wg sync.WaitGroup
	for wk := 0; wk < runtime.NumCPU(); wk++ {
		wg.Add(1)
		go func() {
			defer wg.Done()
			for !stop.Load() {
				j := int(next.Add(1)) - 1
				if j >= len(jobs) {
					return
				}
				jb := jobs[j]
				fp, what, to := runSequence(jb.set, jb.npeers, jb.seq)
				ticks.Add(int64(len(jb.seq)))
				if to {
					timeouts.Add(1)
					continue
				}
				if fp != "" {
					mu.Lock()
					chk.Violation(fp, what, map[string]any{"kind": "run-loop", "settings": fmt.Sprintf("%+v", jb.set), "peers": jb.npeers, "ticks": jb.seq})
					mu.Unlock()
					stop.Store(true)
				}
				if j%499 == 0 {
					chk.Sample(map[string]any{"settings": fmt.Sprintf("%+v", jb.set), "peers": jb.npeers, "ticks": stepsStr(jb.seq)})
				}
				chk.Distinct(fmt.Sprintf("p2/%v/%d/%s", jb.set, jb.npeers, stepsStr(jb.seq)))
			}
		}()
	}
	wg.Wait()
	chk.Set("run_loop_sequences", len(jobs))
	chk.Set("states", int64(len(jobs))+evals)
	chk.Set("transitions", ticks.Load()+evals)
	chk.Set("traces_validated_against_impl", int64(len(jobs)))
	chk.Set("harness_timeouts", timeouts.Load())

	// ---- part 3: cadence under steady / bursty / stalled production
	if chk.Violations() == 0 {
		cadence(chk, sets, thorough)
	}
	// ---- part 4: the started service (production Start, real peer discovery, a real certificate-exchange server)
	if chk.Violations() == 0 {
		lifecycle(chk, sets[0])
	}
	chk.Set("exhaustive", chk.Violations() == 0 && timeouts.Load() == 0)
	chk.Set("rule", "part 1: every sequence of <=3 ticks over {0,1,2,5 certificates} x {arriving locally, at the peers} (also: arriving at the peers with the first of them reaching the node's own store while its request is in flight) with 1 and 2 peers (one lagging): CatchUp and a polling round must report exactly the store advance and leave the poller at the store's next instance. part 2: the production run loop under a mock clock, every sequence of 3 (thorough 4) ticks over the same menu x request time {0, 1/4, 1} initial interval plus a failing peer, three (min, initial, max) settings: the wait recorded right after the timer is re-armed must be the predicted interval (reference predictor fed with the true store advance), extended by no more than the time the requests took and half the interval. part 3: long steady / bursty / stalled-resumed production patterns with one peer, and steady production with one up-to-date peer among 40 that trail or never have anything (more peers than a round asks), known from the start or discovered after the first tick: the interval must settle near the production period. part 4: the production Start (real peer discovery, spawned run loop) against a real certificate-exchange server, start context cancelled or kept: every certificate appearing at the server must reach the store")
	chk.Assume("mocknet; mock clock; the wait is observed through the gauge the loop records right after timer.Reset; reference predictor = documented rules of predictor.go")
	chk.Finish()
}

// lifecycle: Subscriber.Start end to end — its own context handling, peer discovery over libp2p events, the run
// loop it spawns — against a real certexchange.Server, with the context given to Start cancelled right after Start
// returned or kept (a start-up deadline must not stop a started service). One certificate at a time appears at the
// server; the mock clock is moved one maximum interval at a time; the certificate must reach the subscriber's
// store. Nothing bounds the real time that takes (discovery is asynchronous), so a miss is only reported after
// two minutes of trying.
func lifecycle(chk *vcommon.Check, set settings) {
	n := 0
	for _, cancelStart := range []bool{false, true} {
		mn := mocknet.New()
		clientHost, err := mn.GenPeer()
		if err != nil {
			panic(err)
		}
		serverHost, err := mn.GenPeer()
		if err != nil {
			panic(err)
		}
		if err := mn.LinkAll(); err != nil {
			panic(err)
		}
		ctx, clk := clock.WithMockClock(context.Background())
		serverStore, err := certstore.CreateStore(ctx, dssync.MutexWrap(datastore.NewMapDatastore()), 0, table0)
		if err != nil {
			panic(err)
		}
		server := &certexchange.Server{NetworkName: nn, Host: serverHost, Store: serverStore}
		if err := server.Start(ctx); err != nil {
			panic(err)
		}
		clientStore, err := certstore.CreateStore(ctx, dssync.MutexWrap(datastore.NewMapDatastore()), 0, table0)
		if err != nil {
			panic(err)
		}
		sub := &polling.Subscriber{
			Client:              certexchange.Client{Host: clientHost, NetworkName: nn},
			Store:               clientStore,
			SignatureVerifier:   keys,
			InitialPollInterval: set.Initial,
			MaximumPollInterval: set.Max,
			MinimumPollInterval: set.Min,
		}
		startCtx, cancel := context.WithCancel(ctx)
		if err := sub.Start(startCtx); err != nil {
			panic(err)
		}
		if cancelStart {
			cancel()
		}
		if err := mn.ConnectAllButSelf(); err != nil {
			panic(err)
		}
		for k := 0; k < 4 && chk.Violations() == 0; k++ {
			n++
			if err := serverStore.Put(ctx, chain[k]); err != nil {
				panic(err)
			}
			got := false
			for t0 := time.Now(); time.Since(t0) < 2*time.Minute && !got; {
				clk.Add(set.Max)
				for w := 0; w < 20 && !got; w++ {
					if l := clientStore.Latest(); l != nil && l.GPBFTInstance >= uint64(k) {
						got = true
					} else {
						time.Sleep(5 * time.Millisecond)
					}
				}
			}
			if !got {
				chk.Violation("started-subscriber-never-fetches", fmt.Sprintf("started subscriber (start context cancelled after Start: %v): certificate %d, available at a connected up-to-date peer, never reached the store although the clock was moved by the maximum interval for two minutes of real time", cancelStart, k), map[string]any{"kind": "lifecycle", "start_context_cancelled": cancelStart, "certificate": k})
			}
		}
		cancel()
		_ = sub.Stop(context.Background())
		_ = server.Stop(context.Background())
		_ = mn.Close()
		if chk.Violations() > 0 {
			break
		}
	}
	chk.Set("lifecycle_certificates", n)
}

// cadence: production driven by mock time.
func cadence(chk *vcommon.Check, sets []settings, thorough bool) {
	type pattern struct {
		name string
		// certificates produced in (from, to] of mock time since start
		produced func(set settings, from, to time.Duration) int
		steadyT  func(set settings) time.Duration // 0: no steady-state expectation
	}
	every := func(f float64) pattern {
		return pattern{
			name: fmt.Sprintf("steady one certificate per %.1f x initial", f),
			produced: func(set settings, from, to time.Duration) int {
				T := time.Duration(float64(set.Initial) * f)
				return int(to/T) - int(from/T)
			},
			steadyT: func(set settings) time.Duration { return time.Duration(float64(set.Initial) * f) },
		}
	}
	pats := []pattern{every(0.5), every(1), every(2),
		{name: "bursty: 5 certificates every 6 x initial", produced: func(set settings, from, to time.Duration) int {
			T := 6 * set.Initial
			return 5 * (int(to/T) - int(from/T))
		}},
		{name: "stalled for 40 x initial then one per initial", produced: func(set settings, from, to time.Duration) int {
			stall := 40 * set.Initial
			f, t := max(from-stall, 0), max(to-stall, 0)
			return int(t/set.Initial) - int(f/set.Initial)
		}, steadyT: func(set settings) time.Duration { return set.Initial }},
	}
	nticks := 150
	if thorough {
		nticks = 300
	}
	// peer populations: one peer; one up-to-date peer among 40 that trail by 3 certificates (more peers than one
	// polling round asks, so whom the subscriber keeps asking matters)
	type population struct {
		name  string
		lagBy []int
		late  bool
	}
	crowd := make([]int, 41)
	stuck := make([]int, 41)
	for i := 1; i < len(crowd); i++ {
		crowd[i] = 3
		stuck[i] = 1 << 30 // never has anything
	}
	pops := []population{{"1 peer", nil, false}, {"1 up-to-date peer + 40 trailing by 3", crowd, false}, {"1 up-to-date peer, then 40 trailing by 3 are discovered", crowd, true}, {"1 up-to-date peer, then 40 peers that never have anything are discovered", stuck, true}, {"1 up-to-date peer + 40 peers that never have anything", stuck, false}}
	var runs []any
	defer func() { chk.Set("cadence_runs", runs) }()
	for _, pop := range pops {
		for _, set := range sets[:2] {
			for pi, pat := range pats {
				if pop.lagBy != nil && (pi != 1 || set != sets[0]) {
					continue // the crowd: steady production at the initial interval, first settings
				}
				w := newWorld(set, max(1, len(pop.lagBy)), true)
				w.lagBy = pop.lagBy
				next := w.start.Add(set.Initial)
				var last time.Duration
				var intervals []time.Duration
				polls, certsTotal := 0, 0
				fail := ""
				for i := 0; i < nticks; i++ {
					upto := next.Sub(w.start)
					k := pat.produced(set, last, upto)
					last = upto
					w.produce(k, false)
					certsTotal += k
					o, fp, what := w.tick(next)
					if what == "TIMEOUT" {
						chk.Add("harness_timeouts", 1)
						break
					}
					if fp != "" {
						chk.Violation(fp, fmt.Sprintf("settings %+v, %s, pattern %q, tick #%d: %s", set, pop.name, pat.name, i, what), map[string]any{"kind": "cadence", "settings": fmt.Sprintf("%+v", set), "pattern": pat.name, "population": pop.name, "tick": i})
						fail = fp
						break
					}
					polls++
					intervals = append(intervals, o.interval)
					next = o.now.Add(o.wait)
				}
				w.stop()
				if fail != "" {
					return
				}
				if pat.steadyT != nil && len(intervals) == nticks {
					T := pat.steadyT(set)
					// the last third of the run: the waits must hover around T, not pin to min or max
					var sum time.Duration
					tail := intervals[2*nticks/3:]
					pinnedMin, pinnedMax := true, true
					for _, iv := range tail {
						sum += iv
						if iv != set.Min {
							pinnedMin = false
						}
						if iv != set.Max {
							pinnedMax = false
						}
					}
					avg := sum / time.Duration(len(tail))
					rep := map[string]any{"kind": "cadence", "settings": fmt.Sprintf("%+v", set), "pattern": pat.name + " / " + pop.name, "population": pop.name}
					if T > set.Min && pinnedMin {
						chk.Violation("cadence-collapses-to-minimum", fmt.Sprintf("settings %+v, %s: the interval pins to the minimum", set, pat.name), rep)
						return
					}
					if T < set.Max && pinnedMax {
						chk.Violation("cadence-drifts-to-maximum", fmt.Sprintf("settings %+v, %s: the interval pins to the maximum", set, pat.name), rep)
						return
					}
					if T >= set.Min && T <= set.Max && (avg < T/2 || avg > 2*T) {
						chk.Violation("cadence-does-not-settle", fmt.Sprintf("settings %+v, %s: average interval over the last third is %v, production period %v", set, pat.name, avg, T), rep)
						return
					}
					runs = append(runs, map[string]any{"pattern": pat.name, "population": pop.name, "settings": fmt.Sprintf("%+v", set), "production_period": T.String(), "average_interval_last_third": avg.String(), "polls": polls, "certificates": certsTotal})
					chk.Sample(map[string]any{"pattern": pat.name, "population": pop.name, "settings": fmt.Sprintf("%+v", set), "production_period": T.String(), "average_interval_last_third": avg.String(), "polls": polls, "certificates": certsTotal})
				}
				chk.Add("transitions", int64(polls))
			}
		}
	}
}
