// chainexmc — C18: breadth-first search over histories of lookups, own broadcasts, admitted and rejected
// remote broadcasts, floods, prunes and progress changes on the real PubSubChainExchange (validator and
// caching routines driven synchronously), with property-level monitors.
package main

import (
	"context"
	"crypto/sha256"
	"encoding/json"
	"flag"
	"fmt"
	"os"
	"runtime"
	"sort"
	"strings"
	"sync"
	"sync/atomic"
	"time"

	"github.com/filecoin-project/go-f3/chainexchange"
	"github.com/filecoin-project/go-f3/gpbft"
	"github.com/filecoin-project/go-f3/internal/clock"
	"github.com/filecoin-project/go-f3/internal/verif/vcommon"
	"github.com/filecoin-project/go-f3/internal/verif/vfix"
	pubsub "github.com/libp2p/go-libp2p-pubsub"
	mocknet "github.com/libp2p/go-libp2p/p2p/net/mock"
)

var bg = context.Background()

const (
	wantedCap     = 8
	discoveredCap = 6
	lookahead     = 2
	maxAge        = 10 * time.Second
)

var (
	ps     *pubsub.PubSub
	tcid   = vfix.TableCID(nil)
	base   = vfix.TipSet("b", 10, tcid)
	base2  = vfix.TipSet("b2", 14, tcid)
	chains = map[string]*gpbft.ECChain{}
)

func initChains() {
	chains["C1"] = vfix.Chain(base, "x", 2, tcid)
	chains["C2"] = vfix.Chain(base, "y", 1, tcid)
	chains["C3"] = vfix.Chain(base, "z", 3, tcid)
	chains["W"] = vfix.Chain(vfix.TipSet("w", 10, tcid), "w", 1, tcid) // other base
	for i := 0; i < discoveredCap+1; i++ {
		chains[fmt.Sprintf("F%d", i)] = vfix.Chain(base, fmt.Sprintf("f%d", i), 1, tcid)
	}
	bad := vfix.Chain(base, "m", 2, tcid)
	bad.TipSets[2] = &gpbft.TipSet{Epoch: bad.TipSets[1].Epoch, Key: []byte("dup"), PowerTable: tcid}
	chains["BAD"] = bad
}

type ikey struct {
	inst uint64
	key  gpbft.ECChainKey
}

// sys = real chain exchange + reference bookkeeping
type sys struct {
	cx       *chainexchange.PubSubChainExchange
	clk      *clock.Mock
	progress gpbft.InstanceProgress
	// reference
	admitted map[ikey]*gpbft.ECChain // (instance,key) admitted at some point and not pruned
	asked    map[ikey]bool           // the node asked for / broadcast this key itself (an entry exists in its wanted set)
	inWanted map[ikey]bool           // the chain itself reached the wanted set: asked-then-admitted, found by a lookup, or own
	wantedN  map[uint64]int          // distinct keys asked per instance (capacity accounting)
	overflow map[uint64]bool         // wanted capacity exceeded at some point: retention no longer asserted
	fail     string
	fp       string
}

func (s *sys) bad(fp, f string, a ...any) {
	if s.fail == "" {
		s.fp, s.fail = fp, fmt.Sprintf(f, a...)
	}
}

func newSys() *sys {
	s := &sys{admitted: map[ikey]*gpbft.ECChain{}, asked: map[ikey]bool{}, inWanted: map[ikey]bool{}, wantedN: map[uint64]int{}, overflow: map[uint64]bool{}}
	s.clk = clock.NewMock()
	s.clk.Set(time.Unix(1_700_000_000, 0))
	s.progress = gpbft.InstanceProgress{Instant: gpbft.Instant{ID: 5, Round: 0, Phase: gpbft.PREPARE_PHASE}, Input: cloneChain(chains["C1"])}
	var err error
	s.cx, err = chainexchange.NewPubSubChainExchange(
		chainexchange.WithProgress(func() gpbft.InstanceProgress { return s.progress }),
		chainexchange.WithPubSub(ps),
		chainexchange.WithTopicName("/verif/chainexchange"),
		chainexchange.WithMaxDiscoveredChainsPerInstance(discoveredCap),
		chainexchange.WithMaxWantedChainsPerInstance(wantedCap),
		chainexchange.WithMaxInstanceLookahead(lookahead),
		chainexchange.WithMaxTimestampAge(maxAge),
		chainexchange.WithClock(s.clk),
	)
	if err != nil {
		panic(err)
	}
	return s
}

func (s *sys) ask(i uint64, k gpbft.ECChainKey) {
	ik := ikey{i, k}
	if !s.asked[ik] {
		s.asked[ik] = true
		s.wantedN[i]++
		if s.wantedN[i] > wantedCap {
			s.overflow[i] = true
		}
	}
}

// lookup performs a real lookup and checks it against what the reference allows.
func (s *sys) lookup(i uint64, k gpbft.ECChainKey, why string) {
	got, found := s.cx.GetChainByInstance(bg, i, k)
	ik := ikey{i, k}
	want, adm := s.admitted[ik]
	retained := s.inWanted[ik]
	if found {
		// the key of what was returned is recomputed from its tipsets (the object's own key may be memoised)
		if got.Key() != k || cloneChain(got).Key() != k {
			s.bad("lookup-returns-chain-with-other-key", "%s: lookup(instance %d, key %x) returned a chain whose key is %x (recomputed from its tipsets: %x)", why, i, k[:4], keyShort(got), keyShort(cloneChain(got)))
			return
		}
		if !adm {
			s.bad("unadmitted-chain-retrievable", "%s: lookup(instance %d, key %x) returned a chain that was never admitted for that instance (or was pruned)", why, i, k[:4])
			return
		}
		if !got.Eq(want) {
			s.bad("lookup-returns-chain-with-other-key", "%s: lookup(instance %d, key %x) returned a different chain than the admitted one", why, i, k[:4])
			return
		}
	} else if adm && retained && !s.overflow[i] {
		s.bad("asked-for-chain-not-retained", "%s: chain with key %x for instance %d was asked for and then admitted (or found before), the wanted capacity (%d) was never exceeded, yet the lookup does not find it", why, k[:4], i, wantedCap)
		return
	}
	s.ask(i, k)
	if found {
		s.inWanted[ik] = true
		// the caller builds on what it got (a fork on top of the returned chain): chains are values, this must not
		// reach into what the exchange holds
		_ = got.Append(&gpbft.TipSet{Epoch: got.Head().Epoch + 1, Key: []byte("consumer-fork"), PowerTable: tcid})
	}
}

func cloneChain(c *gpbft.ECChain) *gpbft.ECChain {
	ts := make([]*gpbft.TipSet, len(c.TipSets))
	for i, t := range c.TipSets {
		x := *t
		x.Key = append([]byte{}, t.Key...)
		ts[i] = &x
	}
	return &gpbft.ECChain{TipSets: ts}
}

func keyShort(c *gpbft.ECChain) []byte { k := c.Key(); return k[:4] }

func (s *sys) admit(i uint64, c *gpbft.ECChain, own bool) {
	for _, p := range cloneChain(c).AllPrefixes() {
		ik := ikey{i, p.Key()}
		s.admitted[ik] = cloneChain(p)
		if own {
			s.ask(i, p.Key())
		}
		if s.asked[ik] {
			s.inWanted[ik] = true // asked for before (or own): the arriving chain belongs to the wanted set
		}
	}
}

func (s *sys) remote(i uint64, name string, flavour string) (admittedNow bool) {
	c := chains[name]
	m := chainexchange.Message{Instance: i, Chain: c, Timestamp: s.clk.Now().UnixMilli()}
	mustReject := false
	switch flavour {
	case "old-timestamp":
		m.Timestamp -= maxAge.Milliseconds() + 1
		mustReject = true
	case "future-timestamp":
		m.Timestamp += 1
		mustReject = true
	case "empty":
		m.Chain = &gpbft.ECChain{}
		mustReject = true
	case "malformed":
		m.Chain = chains["BAD"]
		mustReject = true
	}
	data, err := s.cx.VerifEncode(&m)
	if err != nil {
		panic(err)
	}
	if flavour == "undecodable" {
		data = append([]byte{0xff, 0x00}, data[:len(data)/2]...)
		mustReject = true
	}
	cur := s.progress
	if i < cur.ID || i > cur.ID+lookahead {
		mustReject = true
	}
	if i == cur.ID && cur.Input != nil && !m.Chain.IsZero() && !m.Chain.Base().Equal(cur.Input.Base()) {
		mustReject = true
	}
	res := s.cx.VerifReceive(bg, data)
	desc := fmt.Sprintf("remote broadcast of %s for instance %d (%s) at progress %d", name, i, flavour, cur.ID)
	if mustReject {
		if res == pubsub.ValidationAccept {
			s.bad("inadmissible-broadcast-admitted:"+reasonOf(flavour, i, cur.ID), "%s was admitted", desc)
		}
		return false
	}
	if res != pubsub.ValidationAccept {
		s.bad("admissible-broadcast-not-admitted", "%s got verdict %v", desc, res)
		return false
	}
	s.admit(i, c, false)
	return true
}

func reasonOf(flavour string, i, cur uint64) string {
	if flavour != "valid" {
		return flavour
	}
	switch {
	case i < cur:
		return "past-instance"
	case i > cur+lookahead:
		return "too-distant-instance"
	}
	return "base-mismatch"
}

func (s *sys) apply(op string) {
	if s.fail != "" {
		return
	}
	f := strings.Split(op, ":")
	var inst uint64
	if len(f) > 1 {
		fmt.Sscanf(f[1], "%d", &inst)
	}
	switch f[0] {
	case "look": // look:<inst>:<chain>:<prefixlen>
		var pl int
		fmt.Sscanf(f[3], "%d", &pl)
		c := chains[f[2]]
		if pl > 0 {
			c = c.Prefix(pl - 1)
		}
		s.lookup(inst, c.Key(), op)
	case "own":
		// (every history works on its own copy of the chain objects it hands to the exchange: histories must not
		// reach each other through shared backing arrays)
		c := cloneChain(chains[f[2]])
		s.cx.VerifOwnBroadcast(bg, chainexchange.Message{Instance: inst, Chain: c, Timestamp: s.clk.Now().UnixMilli()})
		s.admit(inst, c, true)
	case "rem":
		s.remote(inst, f[2], f[3])
	case "remprobe": // admission followed at once by lookups of every prefix (P2)
		if s.remote(inst, f[2], "valid") && s.fail == "" {
			c := chains[f[2]]
			{
				for _, p := range c.AllPrefixes() {
					k := p.Key()
					got, found := s.cx.GetChainByInstance(bg, inst, k)
					if !found || got.Key() != k {
						s.bad("admitted-chain-prefix-not-retrievable", "right after %s was admitted for instance %d its prefix of length %d cannot be retrieved by key", f[2], inst, p.Len())
						return
					}
					s.ask(inst, k)
					s.inWanted[ikey{inst, k}] = true
				}
			}
		}
	case "flood":
		for i := 0; i < discoveredCap+1; i++ {
			s.remote(inst, fmt.Sprintf("F%d", i), "valid")
		}
	case "prune":
		if err := s.cx.RemoveChainsByInstance(bg, inst); err != nil {
			s.bad("prune-error", "RemoveChainsByInstance(%d): %v", inst, err)
		}
		for ik := range s.admitted {
			if ik.inst < inst {
				delete(s.admitted, ik)
			}
		}
		for ik := range s.asked {
			if ik.inst < inst {
				delete(s.asked, ik)
				delete(s.inWanted, ik)
			}
		}
		for i := range s.wantedN {
			if i < inst {
				delete(s.wantedN, i)
				delete(s.overflow, i)
			}
		}
	case "advance":
		s.progress = gpbft.InstanceProgress{Instant: gpbft.Instant{ID: 6, Round: 0, Phase: gpbft.QUALITY_PHASE}, Input: vfix.Chain(base2, "n", 1, tcid)}
	case "between":
		// between two instances: the next instance is scheduled but has not begun, so it has no input chain yet
		s.progress = gpbft.InstanceProgress{Instant: gpbft.Instant{ID: 6, Round: 0, Phase: gpbft.INITIAL_PHASE}}
	case "tick":
		s.clk.Add(maxAge / 2)
	}
}

func (s *sys) key() string {
	h := sha256.New()
	fmt.Fprint(h, s.cx.VerifDump(), "|", s.progress.ID, s.progress.Input == nil, "|")
	var ks []string
	for ik := range s.admitted {
		ks = append(ks, fmt.Sprintf("a%d.%x", ik.inst, ik.key[:4]))
	}
	for ik := range s.asked {
		ks = append(ks, fmt.Sprintf("q%d.%x.%v", ik.inst, ik.key[:4], s.inWanted[ik]))
	}
	for i, o := range s.overflow {
		if o {
			ks = append(ks, fmt.Sprintf("o%d", i))
		}
	}
	sort.Strings(ks)
	fmt.Fprint(h, ks)
	return string(h.Sum(nil))
}

func alphabet(thorough bool) []string {
	var ops []string
	ops = append(ops,
		"look:5:C1:0", "look:5:C1:2", "look:5:C3:0", "look:5:W:0",
		"own:5:C1",
		"rem:5:C1:valid", "rem:5:C3:valid", "remprobe:5:C3", "flood:5",
		"look:6:C1:0", "rem:6:C1:valid", "own:6:C2", "flood:6", "rem:6:W:valid", "look:6:W:0",
	)
	if thorough {
		ops = append(ops, "look:5:C2:0", "look:5:C3:2", "own:5:C2", "rem:5:C2:valid", "look:6:C1:2", "look:6:C2:0", "own:6:C1", "rem:6:C3:valid", "remprobe:6:C3", "rem:7:C2:valid")
	}
	for _, fl := range []string{"undecodable", "empty", "malformed", "old-timestamp", "future-timestamp"} {
		ops = append(ops, "rem:5:C3:"+fl)
	}
	ops = append(ops, "rem:4:C3:valid", "rem:8:C3:valid", "rem:5:W:valid")
	ops = append(ops, "prune:6", "prune:7", "advance", "between", "rem:9:C3:valid")
	if thorough {
		ops = append(ops, "prune:5", "tick")
	}
	return ops
}

func build(hist []string) *sys {
	s := newSys()
	for _, op := range hist {
		s.apply(op)
	}
	return s
}

func main() {
	prop := flag.String("prop", "C18", "")
	replay := flag.String("replay", "", "")
	flag.Parse()
	_ = prop
	mn := mocknet.New()
	h, err := mn.GenPeer()
	if err != nil {
		panic(err)
	}
	if ps, err = pubsub.NewGossipSub(bg, h); err != nil {
		panic(err)
	}
	initChains()
	if *replay != "" {
		os.Exit(doReplay(*replay))
	}
	chk := vcommon.NewCheck("C18", "model_checking")
	thorough := vcommon.Thorough()
	depth, maxStates := 5, 150000
	if thorough {
		depth, maxStates = 7, 3000000
	}
	budget := 150 * time.Second
	if thorough {
		budget = 25 * time.Minute
	}
	dl := vcommon.NewDeadline(budget)
	ops := alphabet(thorough)
	seen := map[string]bool{build(nil).key(): true}
	frontier := [][]string{nil}
	var states, transitions int64 = 1, 0
	exhaustive := true
	done := 0
	type result struct {
		hist     []string
		key      string
		fp, fail string
	}
	for d := 1; d <= depth && len(frontier) > 0 && chk.Violations() == 0; d++ {
		var jobs [][]string
		for _, hist := range frontier {
			for _, op := range ops {
				jobs = append(jobs, append(append([]string{}, hist...), op))
			}
		}
		results := make([]result, len(jobs))
		var nextJob atomic.Int64
		var timedOut atomic.Bool
		var wg sync.WaitGroup
		for w := 0; w < runtime.NumCPU(); w++ {
			wg.Add(1)
			go func() {
				defer wg.Done()
				for {
					j := int(nextJob.Add(1)) - 1
					if j >= len(jobs) {
						return
					}
					if dl.Expired() {
						timedOut.Store(true)
						return
					}
					s := build(jobs[j])
					r := result{hist: jobs[j], fp: s.fp, fail: s.fail}
					if s.fail == "" {
						r.key = s.key()
					}
					results[j] = r
				}
			}()
		}
		wg.Wait()
		var next [][]string
		for _, r := range results {
			if r.hist == nil {
				continue
			}
			transitions++
			if r.fail != "" {
				chk.Violation(r.fp, fmt.Sprintf("history %v: %s", r.hist, r.fail), map[string]any{"history": r.hist})
				break
			}
			if !seen[r.key] {
				if len(seen) >= maxStates {
					exhaustive = false
					continue
				}
				seen[r.key] = true
				states++
				next = append(next, r.hist)
				if states%499 == 0 {
					chk.Sample(strings.Join(r.hist, " "))
				}
			}
		}
		if timedOut.Load() {
			exhaustive = false
			break
		}
		frontier = next
		done = d
	}
	if chk.Violations() == 0 {
		lifecycle(chk)
	}
	chk.Set("states", states)
	chk.Set("transitions", transitions)
	chk.Set("traces_validated_against_impl", transitions)
	chk.Set("depth_completed", done)
	chk.Set("exhaustive", exhaustive && chk.Violations() == 0)
	for k := range seen {
		chk.Distinct(k)
	}
	chk.Sample("look:5:C3:0 rem:5:C3:valid flood:5 look:5:C3:0")
	chk.Set("rule", "BFS over histories of {lookup(instance 5|6, key of C1 / prefix of C1 / C2 / C3 / never-broadcast W), own broadcast, remote broadcast valid or rejected for each reason (undecodable, empty, malformed, past / too distant instance, timestamp too old / in the future, base contradicting the current input), admission followed by lookups of every prefix, flood of capacity+1 unsolicited chains, prune(5|6|7), progress change to the next instance (begun, or scheduled without an input chain yet), clock tick} on the real PubSubChainExchange (wanted capacity 8, discovered capacity 6), deduplicated on (both LRU caches in order, reference bookkeeping); plus the started service end to end: {own, remote} broadcast in both orders x {start context cancelled after Start, kept}, every prefix must become retrievable")
	chk.Assume("BFS part: validator and caching routines are driven synchronously through an injected accessor (no network, no concurrent lookups); mock clock. Life-cycle part: two started services over mocknet gossipsub, real clock; 'never retrievable' = not within two minutes of polling and re-broadcasting")
	chk.Finish()
}

// lifecycle: the started service end to end (Start's own goroutines, real Broadcast, a second node on the same
// topic), for every order of {own broadcast, remote broadcast} x {the context given to Start is cancelled right
// after Start returned, or kept}: F3.Start documents that cancelling its context does not stop a started service,
// and hands that context down to the chain exchange.  An admitted chain and every prefix of it must become
// retrievable by key; nothing bounds how fast, so a miss is only reported after two minutes of polling and
// re-broadcasting (each step normally takes milliseconds).
func lifecycle(chk *vcommon.Check) {
	mk := func(ps *pubsub.PubSub) *chainexchange.PubSubChainExchange {
		cx, err := chainexchange.NewPubSubChainExchange(
			chainexchange.WithProgress(func() gpbft.InstanceProgress {
				return gpbft.InstanceProgress{Instant: gpbft.Instant{ID: 5, Round: 0, Phase: gpbft.PREPARE_PHASE}, Input: chains["C1"]}
			}),
			chainexchange.WithPubSub(ps),
			chainexchange.WithTopicName("/verif/chainexchange-lifecycle"),
			chainexchange.WithMaxDiscoveredChainsPerInstance(discoveredCap),
			chainexchange.WithMaxWantedChainsPerInstance(wantedCap),
			chainexchange.WithMaxInstanceLookahead(lookahead),
			chainexchange.WithMaxTimestampAge(maxAge),
		)
		if err != nil {
			panic(err)
		}
		return cx
	}
	n := 0
	for _, cancelStart := range []bool{false, true} {
		for _, ownFirst := range []bool{true, false} {
			mn := mocknet.New()
			h1, _ := mn.GenPeer()
			h2, _ := mn.GenPeer()
			_ = mn.LinkAll()
			_ = mn.ConnectAllButSelf()
			ps1, err := pubsub.NewGossipSub(bg, h1)
			if err != nil {
				panic(err)
			}
			ps2, err := pubsub.NewGossipSub(bg, h2)
			if err != nil {
				panic(err)
			}
			subject, peer := mk(ps1), mk(ps2)
			startCtx, cancel := context.WithCancel(bg)
			if err := subject.Start(startCtx); err != nil {
				panic(err)
			}
			if err := peer.Start(bg); err != nil {
				panic(err)
			}
			if cancelStart {
				cancel()
			}
			rep := map[string]any{"kind": "lifecycle", "start_context_cancelled": cancelStart, "own_first": ownFirst}
			retrievable := func(c *gpbft.ECChain, send func(ts int64)) bool {
				for t0, k := time.Now(), int64(0); time.Since(t0) < 2*time.Minute; k++ {
					send(time.Now().UnixMilli() + k%2) // a fresh message each time (re-broadcast)
					for w := 0; w < 20; w++ {
						all := true
						for l := 1; l <= c.Len(); l++ {
							pre := c.Prefix(l - 1)
							got, ok := subject.GetChainByInstance(bg, 5, pre.Key())
							all = all && ok && got.Eq(pre)
						}
						if all {
							return true
						}
						time.Sleep(10 * time.Millisecond)
					}
				}
				return false
			}
			own := func() bool {
				c := chains["C1"]
				return retrievable(c, func(ts int64) {
					_ = subject.Broadcast(bg, chainexchange.Message{Instance: 5, Chain: c, Timestamp: ts})
				})
			}
			remote := func() bool {
				c := chains["C3"]
				return retrievable(c, func(ts int64) {
					_ = peer.Broadcast(bg, chainexchange.Message{Instance: 5, Chain: c, Timestamp: ts})
				})
			}
			steps := []struct {
				name string
				f    func() bool
			}{{"own", own}, {"remote", remote}}
			if !ownFirst {
				steps[0], steps[1] = steps[1], steps[0]
			}
			for _, st := range steps {
				n++
				if !st.f() {
					chk.Violation("admitted-chain-never-retrievable:"+st.name, fmt.Sprintf("started service (start context cancelled after Start: %v): a valid %s broadcast for the current instance, repeated for two minutes, never became retrievable by key with all its prefixes", cancelStart, st.name), rep)
					break
				}
			}
			cancel()
			_ = subject.Shutdown(bg)
			_ = peer.Shutdown(bg)
			_ = mn.Close()
			if chk.Violations() > 0 {
				break
			}
		}
		if chk.Violations() > 0 {
			break
		}
	}
	chk.Set("lifecycle_steps", n)
}

func doReplay(path string) int {
	raw, err := os.ReadFile(path)
	if err != nil {
		fmt.Fprintln(os.Stderr, err)
		return 2
	}
	var doc struct {
		Replay struct {
			History []string `json:"history"`
		} `json:"replay"`
	}
	if err := json.Unmarshal(raw, &doc); err != nil {
		fmt.Fprintln(os.Stderr, err)
		return 2
	}
	s := build(doc.Replay.History)
	if s.fail != "" {
		fmt.Printf("VIOLATION property=C18 replay=%s\n  %s: %s\n", path, s.fp, s.fail)
		return 1
	}
	fmt.Println("no violation on this tree")
	return 0
}
