package main

import (
	"context"
	"fmt"

	"github.com/filecoin-project/go-f3/gpbft"
	"github.com/filecoin-project/go-f3/internal/verif/vfix"
)

var (
	bg     = context.Background()
	keys   = vfix.NewKeys(16)
	table  gpbft.PowerEntries // canonical: ids 1,2,3 (10^6 each), 4 (power 1 => scaled 0)
	ptab   *gpbft.PowerTable
	supp0  gpbft.SupplementalData
	supp1  gpbft.SupplementalData
	beacon = []byte("verif-beacon")
	chains [6]*gpbft.ECChain
)

const (
	curInst  = uint64(5)
	lookback = uint64(10)
)

func initFixtures() {
	table = vfix.Canon(gpbft.PowerEntries{
		keys.Entry(1, gpbft.NewStoragePower(1_000_000), 1),
		keys.Entry(2, gpbft.NewStoragePower(1_000_000), 2),
		keys.Entry(3, gpbft.NewStoragePower(1_000_000), 3),
		keys.Entry(4, gpbft.NewStoragePower(1), 4),
	})
	ptab = vfix.PowerTable(table)
	c := vfix.TableCID(table)
	supp0 = gpbft.SupplementalData{PowerTable: c}
	supp1 = gpbft.SupplementalData{PowerTable: c}
	supp1.Commitments[7] = 0x42
	base := vfix.TipSet("g", 10, c)
	chains[0] = vfix.Chain(base, "v", 2, c) // V
	chains[1] = &gpbft.ECChain{}            // bottom
	chains[2] = vfix.Chain(base, "v", 0, c) // base only
	chains[3] = vfix.Chain(base, "w", 1, c) // W
	bad := vfix.Chain(base, "m", 2, c)
	bad.TipSets[2] = &gpbft.TipSet{Epoch: bad.TipSets[1].Epoch, Key: []byte("dup-epoch"), PowerTable: c}
	chains[4] = bad                           // malformed: epochs not increasing
	chains[5] = vfix.Chain(base, "l", 128, c) // too long (129 tipsets)
}

type jspec struct {
	inst    uint64
	round   uint64
	phase   gpbft.Phase
	val     int
	supp    int
	signers int // 0 minimal strong {0,1}; 1 all non-zero {0,1,2}; 2 one short {0}; 3 with zero-power member {0,1,3}; 4 out of range {0,1,9}; 5 empty
	agg     int // 0 valid, 1 invalid
	carry   int // 0: the justification carries the value it was signed over; k>0: it carries chains[k-1] instead
}

type mspec struct {
	sender int // 0 member id1; 1 zero-scaled-power member id4; 2 non-member id9
	inst   uint64
	round  uint64
	phase  gpbft.Phase
	val    int
	supp   int
	sig    int // 0 valid; 1 valid signature of another payload; 2 garbage; 3 empty
	ticket int // 0 default (valid ticket iff CONVERGE); 1 ticket of another round; 2 none; 3 valid ticket although not CONVERGE
	just   *jspec
}

func (m mspec) String() string {
	j := "-"
	if m.just != nil {
		j = fmt.Sprintf("%+v", *m.just)
	}
	return fmt.Sprintf("{sender:%d inst:%d round:%d phase:%s val:%d supp:%d sig:%d ticket:%d just:%s}", m.sender, m.inst, m.round, m.phase, m.val, m.supp, m.sig, m.ticket, j)
}

func suppOf(i int) gpbft.SupplementalData {
	if i == 1 {
		return supp1
	}
	return supp0
}

var signerSets = [][]int{{0, 1}, {0, 1, 2}, {0}, {0, 1, 3}, {0, 1, 9}, {}}

func senderOf(i int) (gpbft.ActorID, gpbft.PubKey) {
	switch i {
	case 0:
		return 1, keys.Pub(1)
	case 1:
		return 4, keys.Pub(4)
	default:
		return 9, keys.Pub(9)
	}
}

func build(s mspec) *gpbft.GMessage {
	id, pk := senderOf(s.sender)
	payload := gpbft.Payload{Instance: s.inst, Round: s.round, Phase: s.phase, SupplementalData: suppOf(s.supp), Value: chains[s.val]}
	m := &gpbft.GMessage{Sender: id, Vote: payload}
	switch s.sig {
	case 0:
		m.Signature, _ = keys.Sign(bg, pk, payload.MarshalForSigning(vfix.Network))
	case 1:
		other := payload
		other.Round += 7
		m.Signature, _ = keys.Sign(bg, pk, other.MarshalForSigning(vfix.Network))
	case 2:
		m.Signature = []byte("garbage-signature-garbage-signat")
	}
	tick := func(r uint64) []byte {
		t, _ := keys.Sign(bg, pk, gpbft.VerifVRFInput(beacon, s.inst, r, vfix.Network))
		return t
	}
	switch s.ticket {
	case 0:
		if s.phase == gpbft.CONVERGE_PHASE {
			m.Ticket = tick(s.round)
		}
	case 1:
		m.Ticket = tick(s.round + 1)
	case 3:
		m.Ticket = tick(s.round)
	}
	if j := s.just; j != nil {
		jp := gpbft.Payload{Instance: j.inst, Round: j.round, Phase: j.phase, SupplementalData: suppOf(j.supp), Value: chains[j.val]}
		set := signerSets[j.signers]
		var inRange []int
		for _, i := range set {
			if i < len(table) {
				inRange = append(inRange, i)
			}
		}
		jj := keys.Justify(vfix.Network, table, jp, inRange)
		jj.Signers = vfix.Bitfield(set)
		if j.carry > 0 {
			jj.Vote.Value = chains[j.carry-1]
		}
		if j.agg == 1 {
			jj.Signature = append([]byte{}, jj.Signature...)
			jj.Signature[3] ^= 0x10
		}
		m.Justification = jj
	}
	return m
}

// baseSpecs: one valid message for every (step, round, value kind, justification kind) combination.
func baseSpecs() []mspec {
	var out []mspec
	V, B := 0, 1
	add := func(ph gpbft.Phase, r uint64, val int, j *jspec) {
		out = append(out, mspec{inst: curInst, round: r, phase: ph, val: val, just: j})
	}
	J := func(ph gpbft.Phase, r uint64, val int) *jspec {
		return &jspec{inst: curInst, round: r, phase: ph, val: val}
	}
	add(gpbft.QUALITY_PHASE, 0, V, nil)
	add(gpbft.PREPARE_PHASE, 0, V, nil)
	add(gpbft.PREPARE_PHASE, 0, B, nil)
	for _, r := range []uint64{0, 1, 2} {
		add(gpbft.COMMIT_PHASE, r, B, nil)
		add(gpbft.COMMIT_PHASE, r, V, J(gpbft.PREPARE_PHASE, r, V))
	}
	for _, r := range []uint64{1, 2} {
		for _, ph := range []gpbft.Phase{gpbft.PREPARE_PHASE, gpbft.CONVERGE_PHASE} {
			add(ph, r, V, J(gpbft.COMMIT_PHASE, r-1, B))
			add(ph, r, V, J(gpbft.PREPARE_PHASE, r-1, V))
		}
		add(gpbft.PREPARE_PHASE, r, B, J(gpbft.COMMIT_PHASE, r-1, B))
	}
	add(gpbft.DECIDE_PHASE, 0, V, J(gpbft.COMMIT_PHASE, 0, V))
	add(gpbft.DECIDE_PHASE, 0, V, J(gpbft.COMMIT_PHASE, 2, V))
	return out
}

type deviation struct {
	name string
	f    func(s mspec) (mspec, bool)
}

func cloneSpec(s mspec) mspec {
	if s.just != nil {
		j := *s.just
		s.just = &j
	}
	return s
}

func deviations() []deviation {
	var ds []deviation
	add := func(name string, f func(s *mspec) bool) {
		ds = append(ds, deviation{name, func(s mspec) (mspec, bool) {
			c := cloneSpec(s)
			ok := f(&c)
			return c, ok
		}})
	}
	for _, v := range []int{1, 2} {
		v := v
		add(fmt.Sprintf("sender=%d", v), func(s *mspec) bool { s.sender = v; return true })
	}
	for _, i := range []uint64{3, 4, 6, 14, 15} {
		i := i
		add(fmt.Sprintf("inst=%d", i), func(s *mspec) bool {
			s.inst = i
			if s.just != nil {
				s.just.inst = i // a consistently re-targeted message; j.inst deviations are separate
			}
			return true
		})
	}
	add("round+1", func(s *mspec) bool { s.round++; return true })
	add("round-1", func(s *mspec) bool {
		if s.round == 0 {
			return false
		}
		s.round--
		return true
	})
	for ph := gpbft.Phase(0); ph <= 7; ph++ {
		ph := ph
		add(fmt.Sprintf("phase=%d", ph), func(s *mspec) bool {
			if s.phase == ph {
				return false
			}
			s.phase = ph
			return true
		})
	}
	for v := 0; v <= 5; v++ {
		v := v
		add(fmt.Sprintf("val=%d", v), func(s *mspec) bool {
			if s.val == v {
				return false
			}
			s.val = v
			return true
		})
	}
	add("supp=1", func(s *mspec) bool { s.supp = 1; return true })
	for v := 1; v <= 3; v++ {
		v := v
		add(fmt.Sprintf("sig=%d", v), func(s *mspec) bool { s.sig = v; return true })
		add(fmt.Sprintf("ticket=%d", v), func(s *mspec) bool { s.ticket = v; return true })
	}
	add("just-toggle", func(s *mspec) bool {
		if s.just != nil {
			s.just = nil
			return true
		}
		s.just = &jspec{inst: s.inst, round: s.round, phase: gpbft.PREPARE_PHASE, val: s.val}
		return true
	})
	add("just-add-commit-bottom", func(s *mspec) bool {
		if s.just != nil {
			return false
		}
		r := s.round
		if r > 0 {
			r--
		}
		s.just = &jspec{inst: s.inst, round: r, phase: gpbft.COMMIT_PHASE, val: 1}
		return true
	})
	jadd := func(name string, f func(j *jspec) bool) {
		add("j."+name, func(s *mspec) bool {
			if s.just == nil {
				return false
			}
			return f(s.just)
		})
	}
	jadd("inst+1", func(j *jspec) bool { j.inst++; return true })
	jadd("inst-1", func(j *jspec) bool { j.inst--; return true }) // a genuine quorum certificate of the previous instance
	jadd("round+1", func(j *jspec) bool { j.round++; return true })
	jadd("round-1", func(j *jspec) bool {
		if j.round == 0 {
			return false
		}
		j.round--
		return true
	})
	for ph := gpbft.QUALITY_PHASE; ph <= gpbft.DECIDE_PHASE; ph++ {
		ph := ph
		jadd(fmt.Sprintf("phase=%d", ph), func(j *jspec) bool {
			if j.phase == ph {
				return false
			}
			j.phase = ph
			return true
		})
	}
	for v := 0; v <= 4; v++ {
		v := v
		jadd(fmt.Sprintf("val=%d", v), func(j *jspec) bool {
			if j.val == v {
				return false
			}
			j.val = v
			return true
		})
	}
	jadd("supp=1", func(j *jspec) bool { j.supp = 1; return true })
	for v := 1; v <= 5; v++ {
		v := v
		jadd(fmt.Sprintf("signers=%d", v), func(j *jspec) bool { j.signers = v; return true })
	}
	jadd("agg=1", func(j *jspec) bool { j.agg = 1; return true })
	for _, v := range []int{1, 2, 4} { // carries V / bottom / W although signed over something else
		v := v
		jadd(fmt.Sprintf("carry=%d", v), func(j *jspec) bool {
			if j.val == v-1 {
				return false
			}
			j.carry = v
			return true
		})
	}
	return ds
}
