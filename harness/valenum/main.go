// valenum — C05 (message validation sound / complete when relevant / history independent) and C13
// (two-stage = one-shot validation): exhaustive enumeration of valid messages and all <=2-field
// deviations x progress states x cache histories, against an independent reference predicate.
package main

import (
	"bytes"
	"context"
	"errors"
	"flag"
	"fmt"
	"os"
	"runtime"
	"sort"
	"sync"
	"sync/atomic"
	"time"

	"github.com/filecoin-project/go-f3/gpbft"
	"github.com/filecoin-project/go-f3/internal/clock"
	"github.com/filecoin-project/go-f3/internal/verif/vcommon"
	"github.com/filecoin-project/go-f3/internal/verif/vfix"
	"github.com/filecoin-project/go-f3/manifest"
	"github.com/filecoin-project/go-f3/pmsg"
	pubsub "github.com/libp2p/go-libp2p-pubsub"
	mocknet "github.com/libp2p/go-libp2p/p2p/net/mock"
)

// ---- committee provider / verifier ------------------------------------------------------------------------

type env struct{}

func (env) GetCommittee(_ context.Context, inst uint64) (*gpbft.Committee, error) {
	agg, err := keys.Aggregate(ptab.Entries.PublicKeys())
	if err != nil {
		return nil, err
	}
	return &gpbft.Committee{PowerTable: ptab, Beacon: beacon, AggregateVerifier: agg}, nil
}

func newValidator(pr gpbft.InstanceProgress, maxPerGroup int) *gpbft.VerifValidator {
	return gpbft.VerifNewValidator(vfix.Network, keys, env{}, func() gpbft.InstanceProgress { return pr }, 3, maxPerGroup, lookback)
}

// ---- reference predicates ---------------------------------------------------------------------------------

func wellFormed(c *gpbft.ECChain) bool {
	if c.IsZero() {
		return true
	}
	if c.Len() > gpbft.ChainMaxLen {
		return false
	}
	last := int64(-1)
	for _, t := range c.TipSets {
		if t == nil || len(t.Key) == 0 || len(t.Key) > gpbft.TipsetKeyMaxLen || !t.PowerTable.Defined() || t.Epoch <= last {
			return false
		}
		last = t.Epoch
	}
	return true
}

var scaledPow = map[gpbft.ActorID]int64{1: 21844, 2: 21844, 3: 21844, 4: 0}

const scaledTotal = 65532

func keyOf(id gpbft.ActorID) gpbft.PubKey {
	for _, e := range table {
		if e.ID == id {
			return e.PubKey
		}
	}
	return nil
}

type jrule struct {
	round uint64
	any   bool // any round
	zero  bool // value must be bottom (else: equal to the message value)
}

func justRule(m *gpbft.GMessage) (jrule, bool) {
	r := m.Vote.Round
	switch m.Vote.Phase {
	case gpbft.CONVERGE_PHASE, gpbft.PREPARE_PHASE:
		switch m.Justification.Vote.Phase {
		case gpbft.COMMIT_PHASE:
			return jrule{round: r - 1, zero: true}, true
		case gpbft.PREPARE_PHASE:
			return jrule{round: r - 1}, true
		}
	case gpbft.COMMIT_PHASE:
		if m.Justification.Vote.Phase == gpbft.PREPARE_PHASE {
			return jrule{round: r}, true
		}
	case gpbft.DECIDE_PHASE:
		if m.Justification.Vote.Phase == gpbft.COMMIT_PHASE {
			return jrule{any: true}, true
		}
	}
	return jrule{}, false
}

// refValid: the validity rules of the property statement, independent of any participant state.
func refValid(m *gpbft.GMessage) bool {
	pw, member := scaledPow[m.Sender]
	if !member || pw == 0 {
		return false
	}
	pk := keyOf(m.Sender)
	if !wellFormed(m.Vote.Value) {
		return false
	}
	bottom := m.Vote.Value.IsZero()
	switch m.Vote.Phase {
	case gpbft.QUALITY_PHASE:
		if m.Vote.Round != 0 || bottom {
			return false
		}
	case gpbft.CONVERGE_PHASE:
		if m.Vote.Round == 0 || bottom {
			return false
		}
		want, _ := keys.Sign(bg, pk, gpbft.VerifVRFInput(beacon, m.Vote.Instance, m.Vote.Round, vfix.Network))
		if !bytes.Equal(want, m.Ticket) {
			return false
		}
	case gpbft.DECIDE_PHASE:
		if m.Vote.Round != 0 || bottom {
			return false
		}
	case gpbft.PREPARE_PHASE, gpbft.COMMIT_PHASE:
	default:
		return false
	}
	want, _ := keys.Sign(bg, pk, m.Vote.MarshalForSigning(vfix.Network))
	if !bytes.Equal(want, m.Signature) {
		return false
	}
	needs := !(m.Vote.Phase == gpbft.QUALITY_PHASE || (m.Vote.Phase == gpbft.PREPARE_PHASE && m.Vote.Round == 0) || (m.Vote.Phase == gpbft.COMMIT_PHASE && bottom))
	j := m.Justification
	if !needs {
		return j == nil
	}
	if j == nil {
		return false
	}
	if j.Vote.Instance != m.Vote.Instance || !j.Vote.SupplementalData.Eq(&m.Vote.SupplementalData) || !wellFormed(j.Vote.Value) {
		return false
	}
	rule, ok := justRule(m)
	if !ok {
		return false
	}
	if !rule.any && j.Vote.Round != rule.round {
		return false
	}
	if rule.zero {
		if !j.Vote.Value.IsZero() {
			return false
		}
	} else if !j.Vote.Value.Eq(m.Vote.Value) {
		return false
	}
	var idx []int
	var power int64
	bad := false
	_ = j.Signers.ForEach(func(i uint64) error {
		if i >= uint64(len(table)) || scaledPow[table[i].ID] == 0 {
			bad = true
			return nil
		}
		idx = append(idx, int(i))
		power += scaledPow[table[i].ID]
		return nil
	})
	if bad || 3*power < 2*scaledTotal {
		return false
	}
	sort.Ints(idx)
	wantJ := keys.Justify(vfix.Network, table, j.Vote, idx)
	return bytes.Equal(wantJ.Signature, j.Signature)
}

// mustAccept: relevance as the statement defines it (a subset of what the implementation accepts).
func mustAccept(m *gpbft.GMessage, pr gpbft.InstanceProgress) bool {
	switch {
	case m.Vote.Instance == pr.ID:
		if m.Vote.Phase == gpbft.DECIDE_PHASE {
			return true
		}
		if pr.Phase == gpbft.DECIDE_PHASE {
			return false
		}
		return m.Vote.Phase == gpbft.QUALITY_PHASE || m.Vote.Round == pr.Round || m.Vote.Round == pr.Round+1 ||
			(m.Vote.Round+1 == pr.Round && m.Vote.Phase == gpbft.COMMIT_PHASE)
	case m.Vote.Instance > pr.ID && m.Vote.Instance < pr.ID+lookback:
		return true
	}
	return false
}

func classify(err error) string {
	switch {
	case err == nil:
		return "accept"
	case errors.Is(err, gpbft.ErrValidationInvalid):
		return "invalid"
	case errors.Is(err, gpbft.ErrValidationTooOld):
		return "tooold"
	case errors.Is(err, gpbft.ErrValidationNotRelevant):
		return "notrelevant"
	case errors.Is(err, gpbft.ErrValidationNoCommittee):
		return "nocommittee"
	}
	return "other:" + err.Error()
}

func validate(v *gpbft.VerifValidator, m *gpbft.GMessage) (cls string) {
	defer func() {
		if r := recover(); r != nil {
			cls = fmt.Sprintf("panic:%v", r)
		}
	}()
	_, err := v.ValidateMessage(bg, m)
	return classify(err)
}

// ---- two-stage -----------------------------------------------------------------------------------------------

func copyMsg(m *gpbft.GMessage) *gpbft.GMessage {
	c := *m
	if m.Justification != nil {
		j := *m.Justification
		c.Justification = &j
	}
	return &c
}

// complete fills a stripped message with chain using the production inference.
func complete(p *gpbft.PartialGMessage, chain *gpbft.ECChain) {
	if !chain.IsZero() {
		p.Vote.Value = chain
	}
	pmsg.VerifInferJustificationVoteValue(p)
}

// strip modes: 0 the production stripper; 1 only the vote value is removed, the justification is left as the sender
// wrote it; 2 nothing is removed — the partial message still carries its chain next to the announced key (a relay
// is free to send either; the receiver must not trust what it did not ask for).
func toPartial(m *gpbft.GMessage, mode int) (*gpbft.PartialGMessage, error) {
	if mode == 0 {
		return pmsg.VerifToPartial(copyMsg(m))
	}
	c := copyMsg(m)
	p := &gpbft.PartialGMessage{GMessage: c}
	if !c.Vote.Value.IsZero() {
		p.VoteValueKey = c.Vote.Value.Key()
		if mode == 1 {
			c.Vote.Value = &gpbft.ECChain{}
		}
	}
	return p, nil
}

func partial(v *gpbft.VerifValidator, m *gpbft.GMessage, key gpbft.ECChainKey) (gpbft.PartiallyValidatedMessage, string) {
	return partialMode(v, m, key, 0)
}

func partialMode(v *gpbft.VerifValidator, m *gpbft.GMessage, key gpbft.ECChainKey, raw int) (pv gpbft.PartiallyValidatedMessage, cls string) {
	defer func() {
		if r := recover(); r != nil {
			cls = fmt.Sprintf("panic:%v", r)
		}
	}()
	p, err := toPartial(m, raw)
	if err != nil {
		return nil, "other:" + err.Error()
	}
	p.VoteValueKey = key
	pv, err = v.PartiallyValidateMessage(bg, p)
	return pv, classify(err)
}

func twoStage(v *gpbft.VerifValidator, m *gpbft.GMessage, key gpbft.ECChainKey, chain *gpbft.ECChain, raw int) (cls string) {
	defer func() {
		if r := recover(); r != nil {
			cls = fmt.Sprintf("panic:%v", r)
		}
	}()
	pv, c := partialMode(v, m, key, raw)
	if c != "accept" {
		return c
	}
	complete(pv.PartialMessage(), chain)
	_, err := v.FullyValidateMessage(bg, pv)
	return classify(err)
}

// ---- completion through the production partial-message manager --------------------------------------------------

// mgrWorld is one real PartialMessageManager (started, over a peerless gossipsub): the two production completion
// routes — the buffered one (message arrives before its chain: BufferPartialMessage, then the chain is
// discovered) and the immediate one (chain already known: CompleteMessage) — are driven instead of re-stating
// what they do.
type mgrWorld struct {
	pmm       *pmsg.PartialMessageManager
	completed <-chan gpbft.PartiallyValidatedMessage
	learnt    map[gpbft.ECChainKey]bool
}

func newMgrWorld() *mgrWorld {
	mn := mocknet.New()
	h, err := mn.GenPeer()
	if err != nil {
		panic(err)
	}
	ps, err := pubsub.NewGossipSub(bg, h)
	if err != nil {
		panic(err)
	}
	m := manifest.LocalDevnetManifest()
	m.NetworkName = "verif-c13"
	m.PubSub.ChainCompressionEnabled = false
	prog := func() gpbft.InstanceProgress {
		return gpbft.InstanceProgress{Instant: gpbft.Instant{ID: curInst, Round: 0, Phase: gpbft.QUALITY_PHASE}}
	}
	pmm, err := pmsg.NewPartialMessageManager(prog, ps, m, clock.RealClock)
	if err != nil {
		panic(err)
	}
	completed, err := pmm.Start(bg)
	if err != nil {
		panic(err)
	}
	return &mgrWorld{pmm: pmm, completed: completed, learnt: map[gpbft.ECChainKey]bool{}}
}

// buffered: the partially validated message waits in the manager's buffer until its chain is discovered. The
// manager handles both events on one goroutine in arrival order of its select; the discovery is repeated until
// the completed message comes out (a discovery that overtakes the buffering is ignored by the manager).
func (w *mgrWorld) buffered(pv gpbft.PartiallyValidatedMessage, chain *gpbft.ECChain) (gpbft.PartiallyValidatedMessage, bool) {
	w.pmm.BufferPartialMessage(bg, pv)
	inst := pv.PartialMessage().Vote.Instance
	wait := 100 * time.Microsecond
	for t0 := time.Now(); time.Since(t0) < 5*time.Minute; {
		w.pmm.NotifyChainDiscovered(bg, inst, chain)
		select {
		case got := <-w.completed:
			return got, true
		case <-time.After(wait):
			if wait < 50*time.Millisecond {
				wait *= 2
			}
		}
	}
	return nil, false
}

// immediate: the chain is already known to the manager's chain exchange when the message arrives.
func (w *mgrWorld) immediate(p *gpbft.PartialGMessage, chain *gpbft.ECChain) bool {
	if !w.learnt[chain.Key()] {
		if err := w.pmm.VerifLearnChain(bg, p.Vote.Instance, chain); err != nil {
			return false
		}
	}
	// the chain is cached by a goroutine of the chain exchange: until then the message is "not complete yet"
	for t0 := time.Now(); time.Since(t0) < 5*time.Minute; time.Sleep(50 * time.Microsecond) {
		if _, ok := w.pmm.CompleteMessage(bg, p); ok {
			w.learnt[chain.Key()] = true
			return true
		}
	}
	return false
}

// oneShot: what one-shot validation says about the completed message.
func oneShot(v *gpbft.VerifValidator, m *gpbft.GMessage, chain *gpbft.ECChain, raw int) string {
	p, err := toPartial(m, raw)
	if err != nil {
		return "other"
	}
	complete(p, chain)
	if chain.IsZero() && raw != 2 {
		p.Vote.Value = &gpbft.ECChain{}
	}
	return validate(v, p.GMessage)
}

// ---- driver -------------------------------------------------------------------------------------------------

type item struct {
	spec  mspec
	label string
	msg   *gpbft.GMessage
	valid bool
	base  int // index of its base message in items
	sibs  []int
}

func progressStates() []gpbft.InstanceProgress {
	var out []gpbft.InstanceProgress
	for _, r := range []uint64{0, 1, 2} {
		for _, ph := range []gpbft.Phase{gpbft.INITIAL_PHASE, gpbft.QUALITY_PHASE, gpbft.CONVERGE_PHASE, gpbft.PREPARE_PHASE, gpbft.COMMIT_PHASE, gpbft.DECIDE_PHASE} {
			out = append(out, gpbft.InstanceProgress{Instant: gpbft.Instant{ID: curInst, Round: r, Phase: ph}})
		}
	}
	out = append(out, gpbft.InstanceProgress{Instant: gpbft.Instant{ID: curInst - 1, Round: 0, Phase: gpbft.PREPARE_PHASE}})
	out = append(out, gpbft.InstanceProgress{Instant: gpbft.Instant{ID: curInst + 1, Round: 0, Phase: gpbft.QUALITY_PHASE}})
	return out
}

func main() {
	prop := flag.String("prop", "", "C05 or C13")
	replay := flag.String("replay", "", "")
	flag.Parse()
	_ = replay
	if *prop != "C05" && *prop != "C13" {
		fmt.Fprintln(os.Stderr, "valenum: -prop must be C05 or C13")
		os.Exit(2)
	}
	initFixtures()
	chk := vcommon.NewCheck(*prop, "model_checking")
	thorough := vcommon.Thorough()

	// ---- build the message space
	bases := baseSpecs()
	devs := deviations()
	var items []*item
	seen := map[string]bool{}
	addItem := func(s mspec, label string, base int) int {
		k := s.String()
		if seen[k] {
			return -1
		}
		seen[k] = true
		m := build(s)
		items = append(items, &item{spec: s, label: label, msg: m, valid: refValid(m), base: base})
		return len(items) - 1
	}
	for bi, b := range bases {
		baseIdx := addItem(b, fmt.Sprintf("base#%d", bi), -1)
		if baseIdx < 0 {
			continue
		}
		items[baseIdx].base = baseIdx
		if !items[baseIdx].valid {
			chk.Violation("harness-base-message-invalid", "reference predicate rejects base message "+b.String(), map[string]any{"spec": b.String()})
			chk.Finish()
		}
		type sd struct {
			s mspec
			n string
		}
		var singles []sd
		for _, d := range devs {
			if s, ok := d.f(b); ok {
				singles = append(singles, sd{s, d.name})
				if i := addItem(s, fmt.Sprintf("base#%d+%s", bi, d.name), baseIdx); i >= 0 {
					items[baseIdx].sibs = append(items[baseIdx].sibs, i)
				}
			}
		}
		for _, s1 := range singles {
			for _, d := range devs {
				if s2, ok := d.f(s1.s); ok {
					addItem(s2, fmt.Sprintf("base#%d+%s+%s", bi, s1.n, d.name), baseIdx)
				}
			}
		}
	}
	nValid := 0
	for _, it := range items {
		if it.valid {
			nValid++
		}
	}
	progs := progressStates()
	var evals, histEvals atomic.Int64
	var states, transitions atomic.Int64
	var stop atomic.Bool
	var mu sync.Mutex
	report := func(fp, what string, it *item, extra map[string]any) {
		mu.Lock()
		defer mu.Unlock()
		rep := map[string]any{"message": it.label, "spec": it.spec.String()}
		for k, v := range extra {
			rep[k] = v
		}
		chk.Violation(fp, what, rep)
		stop.Store(true)
	}
	var next atomic.Int64
	var wg sync.WaitGroup
	histProgs := []gpbft.InstanceProgress{progs[1], progs[9], progs[17]} // (5,0,QUALITY) (5,1,PREPARE) (5,2,DECIDE)
	if thorough {
		histProgs = progs
	}
	for w := 0; w < runtime.NumCPU(); w++ {
		wg.Add(1)
		go func() {
			defer wg.Done()
			var mw *mgrWorld
			if *prop == "C13" {
				mw = newMgrWorld()
			}
			for !stop.Load() {
				i := int(next.Add(1)) - 1
				if i >= len(items) {
					return
				}
				it := items[i]
				m := it.msg
				if *prop == "C05" {
					for _, pr := range progs {
						evals.Add(1)
						v := validate(newValidator(pr, 64), m)
						switch {
						case len(v) > 5 && v[:5] == "panic":
							report("validation-panics", fmt.Sprintf("validating %s at %v panicked: %s", it.label, pr.Instant, v), it, map[string]any{"progress": pr.Instant})
						case v == "accept" && !it.valid:
							report("invalid-message-accepted:"+devClass(it.label), fmt.Sprintf("%s (%s) violates the protocol validity rules but was accepted at progress %v", it.label, it.spec, pr.Instant), it, map[string]any{"progress": pr.Instant})
						case it.valid && v == "invalid":
							report("valid-message-branded-invalid", fmt.Sprintf("%s (%s) is valid but was branded invalid at progress %v", it.label, it.spec, pr.Instant), it, map[string]any{"progress": pr.Instant})
						case it.valid && mustAccept(m, pr) && v != "accept":
							report("relevant-valid-message-not-accepted", fmt.Sprintf("%s (%s) is valid and relevant at progress %v but the verdict was %s", it.label, it.spec, pr.Instant, v), it, map[string]any{"progress": pr.Instant})
						}
					}
					chk.Distinct(it.spec.String())
				}
				// ---- cache histories (both properties): verdicts must not depend on what was validated before
				twins := []int{i}
				if it.base >= 0 && it.base != i {
					twins = append(twins, it.base)
				}
				if b := it.base; b >= 0 {
					for _, s := range items[b].sibs {
						if s != i && len(twins) < 4 && (s+i)%5 == 0 {
							twins = append(twins, s)
						}
					}
				}
				type hop struct {
					idx     int  // item
					partial bool // validate through the partial path
					evict   bool // group eviction instead of a validation
				}
				var hops []hop
				for _, t := range twins {
					hops = append(hops, hop{idx: t})
					hops = append(hops, hop{idx: t, partial: true})
				}
				hops = append(hops, hop{evict: true})
				var hists [][]hop
				for _, a := range hops {
					hists = append(hists, []hop{a})
					for _, b := range hops {
						hists = append(hists, []hop{a, b})
					}
				}
				for _, pr := range histProgs {
					if stop.Load() {
						return
					}
					freshFull := validate(newValidator(pr, 64), m)
					origKey := m.Vote.Value.Key()
					_, freshPart := partial(newValidator(pr, 64), m, origKey)
					states.Add(1)
					for _, cacheSize := range []int{64, 2} {
						for _, h := range hists {
							v := newValidator(pr, cacheSize)
							for _, st := range h {
								switch {
								case st.evict:
									v.EvictGroupsBelow(curInst + 1)
								case st.partial:
									tm := items[st.idx].msg
									_, _ = partial(v, tm, tm.Vote.Value.Key())
								default:
									_ = validate(v, items[st.idx].msg)
								}
								transitions.Add(1)
							}
							histEvals.Add(1)
							states.Add(1)
							if got := validate(v, m); got != freshFull {
								report("verdict-depends-on-history:full", fmt.Sprintf("%s (%s) at %v: fresh validator says %s, after history %s (cache %d) the verdict is %s", it.label, it.spec, pr.Instant, freshFull, histStr(items, h), cacheSize, got), it, map[string]any{"progress": pr.Instant, "history": histStr(items, h)})
								return
							}
							if _, got := partial(v, m, origKey); got != freshPart {
								report("verdict-depends-on-history:partial", fmt.Sprintf("%s (%s) at %v: fresh partial validation says %s, after history %s (cache %d) the verdict is %s", it.label, it.spec, pr.Instant, freshPart, histStr(items, h), cacheSize, got), it, map[string]any{"progress": pr.Instant, "history": histStr(items, h)})
								return
							}
						}
					}
					// partial validation with a different announced key after the genuine one (and vice versa)
					for _, k2 := range []gpbft.ECChainKey{chains[3].Key(), {}} {
						if k2 == origKey {
							continue
						}
						_, fresh2 := partial(newValidator(pr, 64), m, k2)
						v := newValidator(pr, 64)
						_, _ = partial(v, m, origKey)
						transitions.Add(1)
						if _, got := partial(v, m, k2); got != fresh2 {
							report("verdict-depends-on-history:partial-key", fmt.Sprintf("%s (%s) at %v: partial validation under announced key %x says %s on a fresh validator but %s after the same message was validated under its genuine key", it.label, it.spec, pr.Instant, k2[:4], fresh2, got), it, map[string]any{"progress": pr.Instant})
							return
						}
					}
				}
				// ---- C13: two-stage = one-shot
				if *prop == "C13" {
					pr := progs[1]
					if m.Vote.Round > 0 {
						pr = progs[9]
					}
					keyChoices := []struct {
						name string
						key  gpbft.ECChainKey
					}{{"matching", m.Vote.Value.Key()}, {"zero", gpbft.ECChainKey{}}, {"other", chains[3].Key()}}
					chainChoices := []struct {
						name  string
						chain *gpbft.ECChain
					}{{"original", m.Vote.Value}, {"other", chains[3]}, {"bottom", chains[1]}, {"malformed", chains[4]}}
					for _, kc := range keyChoices {
						for _, cc := range chainChoices {
							for _, raw := range []int{0, 1, 2} {
								evals.Add(1)
								two := twoStage(newValidator(pr, 64), m, kc.key, cc.chain, raw)
								one := oneShot(newValidator(pr, 64), m, cc.chain, raw)
								eff := cc.chain // the chain the completed message actually carries
								if raw == 2 && cc.chain.IsZero() {
									eff = m.Vote.Value // nothing to complete with: the chain left in the message stays
								}
								wantAccept := kc.key == eff.Key() && one == "accept"
								if len(two) > 5 && two[:5] == "panic" {
									report("two-stage-panics", fmt.Sprintf("%s announced key %s, completing chain %s: %s", it.label, kc.name, cc.name, two), it, nil)
									return
								}
								if (two == "accept") != wantAccept {
									report("two-stage-differs-from-one-shot:"+kc.name+"/"+cc.name, fmt.Sprintf("%s (%s): announced key %s, completed with chain %s (strip mode %d: 0 production, 1 justification left as sent, 2 chain left in the message): two-stage verdict %s, one-shot verdict of the completed message %s (keys equal: %v)", it.label, it.spec, kc.name, cc.name, raw, two, one, kc.key == eff.Key()), it, map[string]any{"key": kc.name, "chain": cc.name, "raw_strip": raw})
									return
								}
							}
							// a valid message must not be branded invalid by the partial stage when key and chain match
						}
					}
					// ---- the same through the production manager (matching key, genuine chain: the only completions
					// the manager ever performs, since it looks chains up by the announced key)
					// (a malformed chain never reaches the manager: the chain exchange validates what it learns)
					if key := m.Vote.Value.Key(); !key.IsZero() && m.Vote.Instance == curInst && m.Vote.Value.Validate() == nil {
						var orig bytes.Buffer
						_ = m.MarshalCBOR(&orig)
						for _, route := range []string{"buffered", "immediate"} {
							v := newValidator(pr, 64)
							pv, c := partial(v, m, key)
							if c != "accept" {
								continue // never reaches the manager
							}
							evals.Add(1)
							switch route {
							case "buffered":
								got, ok := mw.buffered(pv, m.Vote.Value)
								if !ok {
									report("manager-never-completes:"+route, fmt.Sprintf("%s (%s): buffered in the partial message manager, its chain discovered, but no completed message came out", it.label, it.spec), it, map[string]any{"route": route})
									return
								}
								pv = got
							case "immediate":
								if !mw.immediate(pv.PartialMessage(), m.Vote.Value) {
									report("manager-never-completes:"+route, fmt.Sprintf("%s (%s): CompleteMessage never completes although the chain was broadcast", it.label, it.spec), it, map[string]any{"route": route})
									return
								}
							}
							var done bytes.Buffer
							_ = pv.PartialMessage().GMessage.MarshalCBOR(&done)
							one := validate(newValidator(pr, 64), copyMsg(pv.PartialMessage().GMessage)) // one-shot verdict of the completed message
							_, err := v.FullyValidateMessage(bg, pv)
							two := classify(err)
							if (two == "accept") != (one == "accept") {
								report("two-stage-differs-from-one-shot:manager-"+route, fmt.Sprintf("%s (%s): completed by the partial message manager (%s route): two-stage verdict %s, one-shot verdict %s", it.label, it.spec, route, two, one), it, map[string]any{"route": route})
								return
							}
							if it.valid && !bytes.Equal(done.Bytes(), orig.Bytes()) {
								report("strip-complete-not-identity:manager-"+route, fmt.Sprintf("%s (%s): stripped, then completed by the partial message manager (%s route): not the original message", it.label, it.spec, route), it, map[string]any{"route": route})
								return
							}
						}
					}
					// strip o complete = identity for valid messages
					if it.valid {
						p, err := pmsg.VerifToPartial(copyMsg(m))
						if err == nil {
							complete(p, m.Vote.Value)
							var a, b bytes.Buffer
							_ = p.GMessage.MarshalCBOR(&a)
							_ = m.MarshalCBOR(&b)
							if !bytes.Equal(a.Bytes(), b.Bytes()) {
								report("strip-complete-not-identity", fmt.Sprintf("%s (%s): stripping and completing with the original chain does not reproduce the message", it.label, it.spec), it, nil)
								return
							}
						}
					}
					chk.Distinct(it.spec.String())
				}
			}
		}()
	}
	wg.Wait()
	chk.Set("messages", len(items))
	chk.Set("valid_messages", nValid)
	chk.Set("progress_states", len(progs))
	chk.Set("evaluations", evals.Load()+histEvals.Load())
	chk.Set("history_evaluations", histEvals.Load())
	chk.Set("states", states.Load())
	chk.Set("transitions", transitions.Load())
	chk.Set("traces_validated_against_impl", histEvals.Load())
	chk.Set("exhaustive", chk.Violations() == 0)
	for _, i := range []int{0, len(items) / 2, len(items) - 1} {
		chk.Sample(map[string]any{"message": items[i].label, "spec": items[i].spec.String(), "valid": items[i].valid})
	}
	chk.Set("rule", "one valid message per (step, round, value kind, justification kind) and every single and every pair of field deviations (sender class, instance, round, step, value, supplemental data, signature, ticket, justification presence and each justification field incl. signer sets and aggregate), each re-signed so that exactly the deviated rule is exercised; x 20 progress states on a fresh production validator; cache histories: every sequence of <=2 earlier full/partial validations of the message, its base and sibling deviations, or a group eviction, with cache sizes 64 and 2; C13: 3 announced keys x 4 completing chains x 3 strip modes (production; justification left as sent; chain left in the message) through PartiallyValidate+FullyValidate vs one-shot, completion by the production inference; plus, for every message that passes the partial stage under its genuine key, completion by a real started PartialMessageManager on both of its routes (buffered until the chain is discovered; CompleteMessage with the chain already known), verdict compared with one-shot and bytes with the original")
	chk.Assume("fake signing backend; fixed committee {10^6,10^6,10^6,1}; production cachingValidator reached through an injected constructor with harness-controlled progress and cache geometry")
	chk.Assume("concurrent validation from many goroutines is not explored by this check (sequential histories only)")
	chk.Finish()
}

func devClass(label string) string {
	// base#3+sig=1+j.agg=1 -> sig=1+j.agg=1
	for i := 0; i < len(label); i++ {
		if label[i] == '+' {
			return label[i+1:]
		}
	}
	return "base"
}

func histStr(items []*item, h interface{}) string {
	return fmt.Sprint(h)
}
