package main

import (
	"bytes"
	"context"
	"errors"
	"fmt"
	"sort"
	"strconv"
	"strings"
	"time"

	"github.com/filecoin-project/go-f3/gpbft"
	"github.com/filecoin-project/go-f3/internal/verif/vfix"
	"github.com/filecoin-project/go-f3/sim/signing"
)

var ctx = context.Background()

const (
	delta           = time.Second
	backoffExponent = 1.3
	rebroadcastBase = time.Second
	rebroadcastMax  = 10 * time.Second
)

// msgRec is one message that exists in the system (honest broadcast or Byzantine fabrication).
type msgRec struct {
	id   int
	from int // participant index
	msg  *gpbft.GMessage
	byz  bool
	desc string
}

type delivery struct {
	msg int
	to  int
}

// host implements gpbft.Host for one honest participant.
type host struct {
	sys      *System
	idx      int
	id       gpbft.ActorID
	now      time.Time
	alarm    time.Time             // zero = none
	sent     map[gpbft.Instant]int // own messages by instant -> msg id
	inputs   map[uint64]*gpbft.ECChain
	bases    map[uint64]*gpbft.TipSet
	decided  map[uint64]*gpbft.Justification
	finished bool
	started  bool // has entered its first instance
}

func (h *host) NetworkName() gpbft.NetworkName { return networkName }
func (h *host) Time() time.Time                { return h.now }
func (h *host) SetAlarm(at time.Time)          { h.alarm = at }

func (h *host) GetProposal(_ context.Context, instance uint64) (*gpbft.SupplementalData, *gpbft.ECChain, error) {
	s := h.sys
	if int(instance) >= s.w.sc.Instances {
		return nil, nil, fmt.Errorf("no proposal for instance %d", instance)
	}
	var base *gpbft.TipSet
	if instance == 0 {
		base = s.w.genesis()
	} else {
		d := h.decided[instance-1]
		if d == nil {
			return nil, nil, fmt.Errorf("instance %d not decided", instance-1)
		}
		base = d.Vote.Value.Head()
	}
	chain := s.w.chainFrom(base, s.w.sc.Inputs[instance][h.idx])
	h.inputs[instance] = chain
	h.bases[instance] = base
	h.started = true
	s.mon.onProposal(h.idx, instance, chain)
	supp := s.suppOf(h.idx)
	return &supp, chain, nil
}

func (h *host) GetCommittee(_ context.Context, instance uint64) (*gpbft.Committee, error) {
	s := h.sys
	if int(instance) >= s.w.sc.Instances+2 {
		return nil, fmt.Errorf("no committee for instance %d", instance)
	}
	pt := s.w.newPowerTable()
	agg, err := s.aggregate(pt.Entries.PublicKeys())
	if err != nil {
		return nil, err
	}
	return &gpbft.Committee{PowerTable: pt, Beacon: []byte(s.w.sc.Beacon + strconv.FormatUint(instance, 10)), AggregateVerifier: agg}, nil
}

func (h *host) RequestBroadcast(mb *gpbft.MessageBuilder) error {
	msg, err := mb.Build(ctx, h.sys.backend, h.id)
	if err != nil {
		if errors.Is(err, gpbft.ErrNoPower) {
			return err // a member with zero scaled power cannot vote; not a violation
		}
		h.sys.mon.fail("C07", "broadcast-build-error", fmt.Sprintf("p%d cannot build its own message: %v", h.idx, err))
		return err
	}
	rec := h.sys.addMsg(h.idx, msg, false)
	h.sys.mon.onBroadcast(h.idx, rec)
	inst := gpbft.Instant{ID: msg.Vote.Instance, Round: msg.Vote.Round, Phase: msg.Vote.Phase}
	if _, dup := h.sent[inst]; !dup {
		h.sent[inst] = rec.id
	}
	h.sys.enqueueAll(rec.id, h.idx)
	return nil
}

func (h *host) RequestRebroadcast(instant gpbft.Instant) error {
	id, ok := h.sent[instant]
	if !ok {
		return nil
	}
	h.sys.rebroadcasts++
	h.sys.enqueueAll(id, h.idx)
	return nil
}

func (h *host) ReceiveDecision(_ context.Context, d *gpbft.Justification) (time.Time, error) {
	inst := d.Vote.Instance
	if prev := h.decided[inst]; prev != nil {
		h.sys.mon.fail("C07", "double-decision", fmt.Sprintf("p%d reported a second decision for instance %d", h.idx, inst))
	}
	h.decided[inst] = d
	h.sys.mon.onDecision(h.idx, d)
	if int(inst)+1 >= h.sys.w.sc.Instances {
		h.finished = true
	}
	return h.now, nil
}

func (h *host) Verify(pk gpbft.PubKey, msg, sig []byte) error {
	return h.sys.backend.Verify(pk, msg, sig)
}
func (h *host) Aggregate(pks []gpbft.PubKey) (gpbft.Aggregate, error) {
	return h.sys.aggregate(pks)
}

// System is one execution: real participants plus the harness network / clocks / adversary.
type System struct {
	w            *world
	backend      *signing.FakeBackend
	mode         *Mode
	hosts        []*host // indexed by participant index; nil for byz / silent
	parts        []*gpbft.Participant
	obs          *gpbft.Participant // never-started observer used as "fresh peer" validator
	obsHost      *host
	msgs         []*msgRec
	queue        []delivery
	held         []delivery
	parked       []delivery // withheld by the schedule policy (lagging participant / partition)
	released     bool
	dupUsed      map[delivery]bool
	mon          *monitors
	trace        []string
	events       int
	rebroadcasts int
	byzSent      int
	probes       int                  // forged-message probes of the validators (forge.go)
	validated    map[int]map[int]bool // validated[p][m]: p's validator has accepted message m
	lastProbe    map[int][5]uint64
	preludeDone  int    // policy prelude broadcasts already made
	progressSig  string // liveness: the honest participants' (instance, round, phase, finished) vector ...
	progressAt   int    // ... and the event at which it last changed
	// liveness accounting
	stabRound uint64 // max honest round at the last deviation / release
	ended     string
}

func (s *System) addMsg(from int, m *gpbft.GMessage, byz bool) *msgRec {
	rec := &msgRec{id: len(s.msgs), from: from, msg: m, byz: byz}
	rec.desc = fmt.Sprintf("m%d:p%d:%s", rec.id, from, msgStr(m))
	s.msgs = append(s.msgs, rec)
	return rec
}

func msgStr(m *gpbft.GMessage) string {
	j := ""
	if m.Justification != nil {
		j = fmt.Sprintf("/J(%s,%d,%s)", m.Justification.Vote.Phase, m.Justification.Vote.Round, chainStr(m.Justification.Vote.Value))
	}
	return fmt.Sprintf("%s(i%d,r%d,%s)%s", m.Vote.Phase, m.Vote.Instance, m.Vote.Round, chainStr(m.Vote.Value), j)
}

// suppOf is the supplemental data participant i expects (a participant may have a diverging view).
func (s *System) suppOf(i int) gpbft.SupplementalData {
	supp := s.w.supp
	if s.w.sc.oddSupp(i) {
		supp.Commitments[0] = 0xdd
	}
	return supp
}

// aggregate: the signing scheme's aggregates are bound to the complete key set (BDN-like), see vfix.KeySetBound.
func (s *System) aggregate(pks []gpbft.PubKey) (gpbft.Aggregate, error) {
	return vfix.KeySetBound{Inner: s.backend}.Aggregate(pks)
}

// enqueueAll schedules one delivery per honest participant, the sender first.
func (s *System) enqueueAll(msg int, sender int) {
	pol := s.mode.Policy
	if sender >= 0 && s.hosts[sender] != nil {
		s.queue = append(s.queue, delivery{msg, sender})
		if pol.Kind == "partition" && pol.Echo && s.w.sc.Byz >= 0 && !s.released {
			// the Byzantine participant echoes the vote (same payload and justification, its own signature) to the sender only
			if em := s.echoOf(s.msgs[msg].msg); em != nil {
				rec := s.addMsg(s.w.sc.Byz, em, true)
				s.byzSent++
				s.queue = append(s.queue, delivery{rec.id, sender})
			}
		}
	}
	for _, i := range s.w.sc.Honest() {
		if i == sender {
			continue
		}
		if s.parks(sender, i) {
			s.parked = append(s.parked, delivery{msg, i})
		} else if s.slowLink(sender, i, s.msgs[msg].msg.Vote.Phase) {
			s.held = append(s.held, delivery{msg, i}) // arrives after the next timer event
		} else {
			s.queue = append(s.queue, delivery{msg, i})
		}
	}
}

// parks reports whether the policy withholds a message from sender to recipient right now.
func (s *System) parks(from, to int) bool {
	if s.released {
		return false
	}
	pol := s.mode.Policy
	switch pol.Kind {
	case "lag":
		return to == pol.Lagger && from != pol.Lagger
	case "partition":
		g := func(x int) int {
			for gi, grp := range pol.Groups {
				for _, m := range grp {
					if m == x {
						return gi
					}
				}
			}
			return -1
		}
		return g(from) != g(to)
	}
	return false
}

func (s *System) slowLink(from, to int, ph gpbft.Phase) bool {
	if k := s.mode.Policy.Kind; k != "slow" && k != "latestart" {
		return false
	}
	for _, l := range s.mode.Policy.Slow {
		if l.From == from && l.To == to && l.Phase == ph {
			return true
		}
	}
	return false
}

// startsLate reports whether participant i is the late starter of the "latestart" policy and its start is still
// being postponed: until every other honest participant is done, or one of them has reached FlushRound.
func (s *System) startsLate(i int) bool {
	pol := s.mode.Policy
	if pol.Kind != "latestart" || i != pol.Lagger || s.hosts[i].started {
		return false
	}
	waiting := false
	for _, j := range s.w.sc.Honest() {
		if j == i || s.hosts[j].finished {
			continue
		}
		if pr := s.parts[j].Progress(); pol.FlushRound > 0 && (pr.Round > pol.FlushRound || (pr.Round == pol.FlushRound && pr.Phase >= pol.FlushPhase)) {
			return false
		}
		waiting = true
	}
	return waiting
}

// policyRelease reports whether the withheld messages are due to be released.
func (s *System) policyRelease() bool {
	if s.released || len(s.parked) == 0 {
		return false
	}
	pol := s.mode.Policy
	switch pol.Kind {
	case "lag":
		othersDone := true
		for _, i := range s.w.sc.Honest() {
			if i == pol.Lagger {
				continue
			}
			if !s.hosts[i].finished {
				othersDone = false
				if pr := s.parts[i].Progress(); pr.Round >= pol.FlushRound && pol.FlushRound > 0 {
					return true
				}
			}
		}
		return othersDone
	case "partition":
		return pol.HealAfter > 0 && s.events >= pol.HealAfter
	}
	return false
}

func (s *System) echoOf(m *gpbft.GMessage) *gpbft.GMessage {
	bpk := s.w.pubkeys[actor(s.w.sc.Byz)]
	sig, err := s.backend.Sign(ctx, bpk, m.Vote.MarshalForSigning(networkName))
	if err != nil {
		return nil
	}
	e := &gpbft.GMessage{Sender: actor(s.w.sc.Byz), Vote: m.Vote, Signature: sig, Justification: m.Justification}
	if m.Vote.Phase == gpbft.CONVERGE_PHASE {
		beacon := []byte(s.w.sc.Beacon + strconv.FormatUint(m.Vote.Instance, 10))
		if e.Ticket, err = s.backend.Sign(ctx, bpk, gpbft.VerifVRFInput(beacon, m.Vote.Instance, m.Vote.Round, networkName)); err != nil {
			return nil
		}
	}
	return e
}

func newSystem(w *world, mode *Mode) *System {
	s := &System{w: w, mode: mode, dupUsed: map[delivery]bool{}, backend: w.newBackend()}
	s.mon = newMonitors(s)
	n := w.sc.N()
	s.hosts = make([]*host, n)
	s.parts = make([]*gpbft.Participant, n)
	opts := []gpbft.Option{
		gpbft.WithDelta(delta),
		gpbft.WithDeltaBackOffExponent(backoffExponent),
		gpbft.WithRebroadcastBackoff(1.3, 0, rebroadcastBase, rebroadcastMax),
		gpbft.WithMaxCachedMessagesPerInstance(48),
		gpbft.WithMaxCachedInstances(4),
		gpbft.WithMaxLookaheadRounds(5),
		gpbft.WithCommitteeLookback(10),
	}
	if q := w.sc.QualityMultiplier; q != 0 {
		opts = append(opts, gpbft.WithQualityDeltaMultiplier(q))
	}
	mk := func(i int) (*host, *gpbft.Participant) {
		h := &host{sys: s, idx: i, id: actor(i), now: baseTime, sent: map[gpbft.Instant]int{},
			inputs: map[uint64]*gpbft.ECChain{}, bases: map[uint64]*gpbft.TipSet{}, decided: map[uint64]*gpbft.Justification{}}
		p, err := gpbft.NewParticipant(h, opts...)
		if err != nil {
			panic(err)
		}
		return h, p
	}
	for _, i := range w.sc.Honest() {
		s.hosts[i], s.parts[i] = mk(i)
	}
	s.obsHost, s.obs = mk(-1)
	for _, i := range w.sc.Honest() {
		if err := s.parts[i].StartInstanceAt(0, baseTime); err != nil {
			s.mon.fail("C07", "start-error", fmt.Sprintf("StartInstanceAt: %v", err))
		}
	}
	if err := s.obs.StartInstanceAt(0, baseTime.Add(1000*time.Hour)); err != nil {
		panic(err)
	}
	return s
}

// ---- actions ---------------------------------------------------------------------------------------

// An action label is the stable textual identity of one transition:
//
//	D<m>><p>  deliver message m to p            (default when it is the queue head)
//	T<p>      time flows for everybody until p's alarm, which fires (default when the queue is empty)
//	W0        time flows with no alarm pending: the messages held back arrive (default when nothing else is enabled)
//	L<m>><p>  delay: move the queue head to the back
//	H<m>><p>  hold: keep the queue head back until after the next timer event
//	X<m>><p>  drop the queue head (safety modes only)
//	U<m>><p>  duplicate: deliver the queue head and keep a second copy at the back
//	J<m>><p>  jump: deliver a non-head pending message out of order
//	E<p>      early timer: only p's clock advances to its alarm, which fires
//	B<spec>><p> deliver the Byzantine message described by spec to p
type action struct {
	kind byte
	msg  int
	to   int
	spec string
}

func (a action) String() string {
	switch a.kind {
	case 'P':
		return "P0"
	case 'W':
		return "W0"
	case 'T', 'E':
		return fmt.Sprintf("%c%d", a.kind, a.to)
	case 'B', 'A', 'F':
		return fmt.Sprintf("%c%s>%d", a.kind, a.spec, a.to)
	default:
		return fmt.Sprintf("%c%d>%d", a.kind, a.msg, a.to)
	}
}

func parseAction(s string) (action, error) {
	if len(s) < 2 {
		return action{}, fmt.Errorf("bad action %q", s)
	}
	a := action{kind: s[0]}
	rest := s[1:]
	switch a.kind {
	case 'P', 'W':
		return a, nil
	case 'T', 'E':
		n, err := strconv.Atoi(rest)
		a.to = n
		return a, err
	case 'B', 'A', 'F':
		i := strings.LastIndexByte(rest, '>')
		if i < 0 {
			return a, fmt.Errorf("bad action %q", s)
		}
		a.spec = rest[:i]
		n, err := strconv.Atoi(rest[i+1:])
		a.to = n
		return a, err
	default:
		i := strings.IndexByte(rest, '>')
		if i < 0 {
			return a, fmt.Errorf("bad action %q", s)
		}
		m, err := strconv.Atoi(rest[:i])
		if err != nil {
			return a, err
		}
		n, err := strconv.Atoi(rest[i+1:])
		a.msg, a.to = m, n
		return a, err
	}
}

// nextTimer returns the participant whose alarm is due first in its own clock (ties: lowest index).
func (s *System) nextTimer() (int, time.Duration, bool) {
	best, bestD, ok := -1, time.Duration(0), false
	for _, i := range s.w.sc.Honest() {
		h := s.hosts[i]
		if h.finished || h.alarm.IsZero() {
			continue
		}
		if s.startsLate(i) {
			continue // late-start policy: its start timer is not due yet (messages reach it and are queued meanwhile)
		}
		d := h.alarm.Sub(h.now)
		if d < 0 {
			d = 0
		}
		if !ok || d < bestD {
			best, bestD, ok = i, d, true
		}
	}
	return best, bestD, ok
}

// defaultAction is the synchronous, loss-free, Byzantine-silent schedule.
func (s *System) defaultAction() (action, bool) {
	if s.preludeDone < len(s.mode.Policy.Prelude) {
		return action{kind: 'A', spec: s.mode.Policy.Prelude[s.preludeDone]}, true
	}
	if s.policyRelease() {
		return action{kind: 'P'}, true
	}
	if len(s.queue) > 0 {
		d := s.queue[0]
		return action{kind: 'D', msg: d.msg, to: d.to}, true
	}
	if p, _, ok := s.nextTimer(); ok {
		return action{kind: 'T', to: p}, true
	}
	if len(s.held) > 0 {
		// nobody has a timer pending: time passes anyway, and what was held back arrives (a held message is late,
		// never lost)
		return action{kind: 'W'}, true
	}
	return action{}, false
}

// deviations lists every non-default transition enabled now (each costs one unit of budget).
func (s *System) deviations() []action {
	var out []action
	m := s.mode
	if len(s.queue) > 0 {
		d := s.queue[0]
		if m.Delay && len(s.queue) > 1 {
			out = append(out, action{kind: 'L', msg: d.msg, to: d.to})
		}
		if m.Hold {
			out = append(out, action{kind: 'H', msg: d.msg, to: d.to})
		}
		if m.Drop && s.msgs[d.msg].from != d.to {
			out = append(out, action{kind: 'X', msg: d.msg, to: d.to})
		}
		if m.Dup && !s.dupUsed[d] {
			out = append(out, action{kind: 'U', msg: d.msg, to: d.to})
		}
		if m.Jump {
			seen := map[delivery]bool{d: true}
			for _, o := range s.queue[1:] {
				if !seen[o] {
					seen[o] = true
					out = append(out, action{kind: 'J', msg: o.msg, to: o.to})
				}
			}
		}
		if m.Early {
			for _, i := range s.w.sc.Honest() {
				h := s.hosts[i]
				if !h.finished && !h.alarm.IsZero() {
					out = append(out, action{kind: 'E', to: i})
				}
			}
		}
	} else if m.Early {
		def, _, ok := s.nextTimer()
		if ok {
			for _, i := range s.w.sc.Honest() {
				h := s.hosts[i]
				if i != def && !h.finished && !h.alarm.IsZero() {
					out = append(out, action{kind: 'E', to: i})
				}
			}
		}
	}
	if m.Byz && s.w.sc.Byz >= 0 {
		for _, spec := range s.byzMenu() {
			if m.ByzAll {
				out = append(out, action{kind: 'A', spec: spec})
				continue
			}
			for _, i := range s.w.sc.Honest() {
				if !s.hosts[i].finished {
					out = append(out, action{kind: 'B', spec: spec, to: i})
				}
			}
		}
	}
	return out
}

func (s *System) removeQueued(d delivery) bool {
	for i, q := range s.queue {
		if q == d {
			s.queue = append(s.queue[:i:i], s.queue[i+1:]...)
			return true
		}
	}
	return false
}

// apply executes one transition. It returns an error if the action is not enabled (replay divergence).
func (s *System) apply(a action) error {
	s.events++
	s.trace = append(s.trace, a.String())
	d := delivery{a.msg, a.to}
	switch a.kind {
	case 'P':
		if !s.policyRelease() {
			return fmt.Errorf("P not enabled")
		}
		s.released = true
		if s.mode.Policy.LIFO {
			for i := len(s.parked) - 1; i >= 0; i-- {
				s.queue = append(s.queue, s.parked[i])
			}
		} else {
			s.queue = append(s.queue, s.parked...)
		}
		s.parked = nil
		s.noteStabilisation()
	case 'W':
		if len(s.queue) != 0 || len(s.held) == 0 {
			return fmt.Errorf("W not enabled")
		}
		if _, _, ok := s.nextTimer(); ok {
			return fmt.Errorf("W not enabled")
		}
		s.queue = append(s.queue, s.held...)
		s.held = nil
		s.noteStabilisation()
	case 'D', 'J':
		if a.kind == 'D' && (len(s.queue) == 0 || s.queue[0] != d) {
			return fmt.Errorf("D%v not at queue head", d)
		}
		if !s.removeQueued(d) {
			return fmt.Errorf("%v not pending", d)
		}
		s.deliver(s.msgs[a.msg], a.to)
	case 'L':
		if len(s.queue) < 2 || s.queue[0] != d {
			return fmt.Errorf("L%v not enabled", d)
		}
		s.queue = append(s.queue[1:len(s.queue):len(s.queue)], d)
	case 'H':
		if len(s.queue) == 0 || s.queue[0] != d {
			return fmt.Errorf("H%v not enabled", d)
		}
		s.queue = s.queue[1:]
		s.held = append(s.held, d)
	case 'X':
		if len(s.queue) == 0 || s.queue[0] != d {
			return fmt.Errorf("X%v not enabled", d)
		}
		s.queue = s.queue[1:]
	case 'U':
		if len(s.queue) == 0 || s.queue[0] != d || s.dupUsed[d] {
			return fmt.Errorf("U%v not enabled", d)
		}
		s.dupUsed[d] = true
		s.queue = append(s.queue[1:len(s.queue):len(s.queue)], d)
		s.deliver(s.msgs[a.msg], a.to)
	case 'T':
		p, dur, ok := s.nextTimer()
		if !ok || p != a.to || len(s.queue) != 0 {
			return fmt.Errorf("T%d not enabled", a.to)
		}
		for _, i := range s.w.sc.Honest() {
			s.hosts[i].now = s.hosts[i].now.Add(dur)
		}
		late := s.mode.Policy.Kind == "latestart" && a.to == s.mode.Policy.Lagger && !s.hosts[a.to].started
		s.fire(a.to)
		s.release(a.to)
		if late {
			s.noteStabilisation() // the late starter joins: from here on the network is timely
		}
	case 'E':
		h := s.hosts[a.to]
		if h == nil || h.finished || h.alarm.IsZero() {
			return fmt.Errorf("E%d not enabled", a.to)
		}
		if h.alarm.After(h.now) {
			h.now = h.alarm
		}
		s.fire(a.to)
		s.release(a.to)
	case 'B':
		m, err := s.byzBuild(a.spec)
		if err != nil {
			return fmt.Errorf("byz %s: %w", a.spec, err)
		}
		rec := s.addMsg(s.w.sc.Byz, m, true)
		s.byzSent++
		s.deliver(rec, a.to)
	case 'F':
		// a forgery the target's validator was found not to be sound against (forge.go): presented twice through
		// the route it was accepted on, received whenever accepted
		if len(a.spec) < 2 || s.hosts[a.to] == nil {
			return fmt.Errorf("bad forgery %q", a.spec)
		}
		m, err := s.forgeBuild(a.spec[1:])
		if err != nil {
			return fmt.Errorf("forge %s: %w", a.spec, err)
		}
		if d := s.forgeDonor(a.spec[1:]); d >= 0 && s.validated[a.to][d] {
			_, _ = validateVia(s.parts[a.to], s.msgs[d].msg, a.spec[0]) // the genuine message it derives from, seen again
		}
		rec := s.addMsg(s.w.sc.Byz, m, true)
		s.byzSent++
		s.deliverVia(rec, a.to, a.spec[0])
		s.deliverVia(rec, a.to, a.spec[0])
	case 'A':
		m, err := s.byzBuild(a.spec)
		if err != nil {
			return fmt.Errorf("byz %s: %w", a.spec, err)
		}
		if s.preludeDone < len(s.mode.Policy.Prelude) && s.mode.Policy.Prelude[s.preludeDone] == a.spec {
			s.preludeDone++
		}
		rec := s.addMsg(s.w.sc.Byz, m, true)
		s.byzSent++
		for _, i := range s.w.sc.Honest() {
			if !s.hosts[i].finished {
				s.deliver(rec, i)
			}
		}
	default:
		return fmt.Errorf("unknown action kind %c", a.kind)
	}
	s.mon.afterEvent()
	if s.mode.Liveness {
		var sb strings.Builder
		for _, i := range s.w.sc.Honest() {
			pr := s.parts[i].Progress()
			fmt.Fprintf(&sb, "%d.%d.%d.%v|", pr.ID, pr.Round, pr.Phase, s.hosts[i].finished)
		}
		if sig := sb.String(); sig != s.progressSig {
			s.progressSig, s.progressAt = sig, s.events
		}
	}
	return nil
}

// release re-enqueues the held messages addressed to p (called after a timer event at p): a held message
// arrives "one timeout late" at its recipient.
func (s *System) release(p int) {
	var keep []delivery
	released := false
	for _, d := range s.held {
		if d.to == p {
			s.queue = append(s.queue, d)
			released = true
		} else {
			keep = append(keep, d)
		}
	}
	s.held = keep
	if released {
		s.noteStabilisation()
	}
}

func (s *System) maxHonestRound() uint64 {
	var r uint64
	for _, i := range s.w.sc.Honest() {
		if s.hosts[i].finished {
			continue
		}
		if pr := s.parts[i].Progress(); pr.Round > r && int(pr.ID) < s.w.sc.Instances {
			r = pr.Round
		}
	}
	return r
}

func (s *System) noteStabilisation() {
	if r := s.maxHonestRound(); r > s.stabRound {
		s.stabRound = r
	}
}

func (s *System) fire(i int) {
	h := s.hosts[i]
	h.alarm = time.Time{}
	err := s.parts[i].ReceiveAlarm(ctx)
	s.mon.onAPIError(i, "ReceiveAlarm", err)
}

func (s *System) deliver(rec *msgRec, to int) {
	route := byte('1')
	if s.mode.Wire {
		route = '2'
	}
	s.deliverVia(rec, to, route)
}

// deliverVia: route '1' validates the complete message in one shot (production: the chain is already known when
// the message arrives), route '2' in two stages (production: the chain is learnt after the message).
func (s *System) deliverVia(rec *msgRec, to int, route byte) {
	h := s.hosts[to]
	if h == nil {
		return
	}
	p := s.parts[to]
	before := p.Progress()
	vm, err := validateVia(p, rec.msg, route)
	s.mon.onValidation(to, rec, before, err)
	if err != nil {
		return
	}
	if s.validated == nil {
		s.validated = map[int]map[int]bool{}
	}
	if s.validated[to] == nil {
		s.validated[to] = map[int]bool{}
	}
	s.validated[to][rec.id] = true
	s.mon.onAccepted(to, rec, before)
	err = p.ReceiveMessage(ctx, vm)
	s.mon.onAPIError(to, "ReceiveMessage", err)
}

// stallEvents: a liveness run in which no honest participant changes its (instance, round, step) for this many
// consecutive events, with no message withheld, has stopped making progress: time passes (timers keep firing,
// rebroadcasts keep being delivered) and nothing changes. A healthy run moves at least every few timeouts.
const stallEvents = 1500

// done reports whether the execution has ended and why.
func (s *System) done() (string, bool) {
	all := true
	for _, i := range s.w.sc.Honest() {
		if !s.hosts[i].finished && !s.w.sc.oddSupp(i) {
			all = false
		}
	}
	if all && (len(s.w.sc.OddSupp) == 0 || len(s.queue) == 0) {
		// participants with a diverging view cannot decide; the run ends once everything sent has reached them
		return "all-decided", true
	}
	if s.mode.Liveness && s.events-s.progressAt >= stallEvents && len(s.parked) == 0 && len(s.held) == 0 {
		// nobody has moved for stallEvents consecutive events (deliveries and timers) although nothing is withheld
		return "stalled", true
	}
	if s.events >= s.mode.Horizon {
		return "horizon", true
	}
	if r := s.maxHonestRound(); r > s.roundBound() {
		return "round-bound", true
	}
	if _, ok := s.defaultAction(); !ok {
		return "quiescent", true
	}
	return "", false
}

func (s *System) roundBound() uint64 {
	if s.mode.Liveness {
		if s.byzSent > 0 {
			return s.stabRound + 40
		}
		return s.stabRound + 6
	}
	return s.w.sc.MaxRound
}

// key is the canonical global state key used for pruning (see DESIGN §2.3).
func (s *System) key() string {
	var b bytes.Buffer
	for _, i := range s.w.sc.Honest() {
		h := s.hosts[i]
		fmt.Fprintf(&b, "\n#%d n%d a", i, h.now.Sub(baseTime))
		if h.alarm.IsZero() {
			b.WriteString("-")
		} else {
			fmt.Fprintf(&b, "%d", h.alarm.Sub(baseTime))
		}
		fmt.Fprintf(&b, " f%v ", h.finished)
		s.parts[i].VerifDump(&b, baseTime)
		// decisions
		insts := make([]int, 0, len(h.decided))
		for k := range h.decided {
			insts = append(insts, int(k))
		}
		sort.Ints(insts)
		for _, k := range insts {
			fmt.Fprintf(&b, " d%d=%s", k, chainStr(h.decided[uint64(k)].Vote.Value))
		}
	}
	b.WriteString("\nQ")
	for _, d := range s.queue {
		fmt.Fprintf(&b, " %s>%d", s.msgKey(d.msg), d.to)
	}
	b.WriteString("\nH")
	hs := make([]string, 0, len(s.held))
	for _, d := range s.held {
		hs = append(hs, fmt.Sprintf("%s>%d", s.msgKey(d.msg), d.to))
	}
	sort.Strings(hs)
	b.WriteString(strings.Join(hs, " "))
	// the set of honest messages in existence (Byzantine knowledge and rebroadcast store derive from it)
	b.WriteString("\nM")
	ms := make([]string, 0, len(s.msgs))
	for _, r := range s.msgs {
		if !r.byz {
			ms = append(ms, s.msgKey(r.id))
		}
	}
	sort.Strings(ms)
	b.WriteString(strings.Join(ms, " "))
	du := make([]string, 0, len(s.dupUsed))
	for d := range s.dupUsed {
		du = append(du, fmt.Sprintf("%s>%d", s.msgKey(d.msg), d.to))
	}
	sort.Strings(du)
	b.WriteString("\nU" + strings.Join(du, " "))
	if s.mode.Liveness {
		fmt.Fprintf(&b, "\nL%d,%v", s.stabRound, s.byzSent > 0)
	}
	if n := len(s.mode.Policy.Prelude); n > 0 {
		fmt.Fprintf(&b, "\nprelude%d/%d", s.preludeDone, n)
	}
	if s.mode.Policy.Kind != "" {
		ps := make([]string, 0, len(s.parked))
		for _, d := range s.parked {
			ps = append(ps, fmt.Sprintf("%s>%d", s.msgKey(d.msg), d.to))
		}
		if !s.mode.Policy.LIFO {
			sort.Strings(ps)
		}
		fmt.Fprintf(&b, "\nP%v,%d:%s", s.released, boolToInt(s.mode.Policy.Kind == "partition" && !s.released)*s.events, strings.Join(ps, " "))
	}
	b.WriteString("\n")
	s.mon.key(&b)
	return b.String()
}

func boolToInt(b bool) int {
	if b {
		return 1
	}
	return 0
}

// msgKey identifies a message by content class, not by creation index, so that executions which create
// the same messages in a different order still merge.
func (s *System) msgKey(id int) string {
	r := s.msgs[id]
	m := r.msg
	j := ""
	if m.Justification != nil {
		j = fmt.Sprintf("/%d.%d.%s", m.Justification.Vote.Phase, m.Justification.Vote.Round, chainStr(m.Justification.Vote.Value))
	}
	bz := ""
	if r.byz {
		bz = "!"
	}
	return fmt.Sprintf("%s%d:%d.%d.%d.%s%s", bz, r.from, m.Vote.Instance, m.Vote.Round, m.Vote.Phase, chainStr(m.Vote.Value), j)
}
