package main

import (
	"crypto/sha256"
	"fmt"
	"github.com/filecoin-project/go-f3/gpbft"
	"os"
	"sort"
	"strings"
	"sync"
	"sync/atomic"
	"time"
)

// Mode selects the deviation alphabet, the monitors (Prop) and the bounds of one exploration.
type Mode struct {
	Prop     string
	Name     string
	Delay    bool
	Hold     bool
	Drop     bool
	Dup      bool
	Jump     bool
	Early    bool
	Byz      bool
	ByzAll   bool // Byzantine deviations are broadcasts to all honest participants (one deviation) instead of single deliveries
	Wire     bool // deliveries take the two-stage validation route (partial, then full) instead of one-shot
	Forge    bool // probe the validators with forged Byzantine messages in every expanded state (forge.go)
	Liveness bool
	Policy   Policy
	Horizon  int
	syncRun  bool // set per execution: no deviation at all
}

// Policy changes the deterministic base schedule around which deviations are explored ("start from
// non-initial states too"): a lagging participant whose inbox is withheld for a while, or a partition of
// the honest participants with a Byzantine participant that echoes every honest vote back to its sender.
type Policy struct {
	Kind       string      // "", "lag", "partition", "slow", "latestart"
	Lagger     int         // lag: participant whose incoming messages are withheld
	FlushRound uint64      // lag: the inbox is released once another honest participant reaches this round (or is done)
	FlushPhase gpbft.Phase // latestart: ... and at least this step of that round
	LIFO       bool        // lag: release newest first
	Groups     [][]int     // partition: groups of honest participants; cross-group messages are withheld
	HealAfter  int         // partition: events after which the partition heals (0: never)
	Echo       bool        // partition: the Byzantine participant echoes every honest vote to its sender
	Prelude    []string    // Byzantine broadcasts (specs) that open the base schedule: a member that votes, then crashes
	Slow       []Link      // slow: messages of the given phase on the given link arrive one timeout late (held until after the next timer event)
}

// Link is a directed honest-to-honest link for one phase.
type Link struct {
	From, To int
	Phase    gpbft.Phase
}

func (p Policy) String() string {
	switch p.Kind {
	case "lag":
		return fmt.Sprintf("lag(p%d until round %d, lifo=%v)", p.Lagger, p.FlushRound, p.LIFO)
	case "latestart":
		sl := ""
		for _, l := range p.Slow {
			sl += fmt.Sprintf(",p%d>p%d:%s late", l.From, l.To, l.Phase)
		}
		return fmt.Sprintf("latestart(p%d until round %d %s or the others are done%s)", p.Lagger, p.FlushRound, p.FlushPhase, sl)
	case "partition":
		return fmt.Sprintf("partition(%v heal@%d echo=%v)", p.Groups, p.HealAfter, p.Echo)
	case "slow":
		var ls []string
		for _, l := range p.Slow {
			ls = append(ls, fmt.Sprintf("p%d>p%d:%s", l.From, l.To, l.Phase))
		}
		return "slow(" + strings.Join(ls, ",") + ")"
	}
	return "sync"
}

// maxForgeries bounds the accepted forgeries (action F) per execution.
var maxForgeries = 2

type node struct {
	prefix []string
	budget int
}

type found struct {
	f     failure
	trace []string
	sc    *Scenario
	mode  Mode
}

type stats struct {
	executions  atomic.Int64
	transitions atomic.Int64
	states      atomic.Int64
	pruned      atomic.Int64
	diverged    atomic.Int64
	expanded    atomic.Int64
	byzAccepted atomic.Int64
	probes      atomic.Int64
	forged      atomic.Int64
}

type Explorer struct {
	w      *world
	mode   Mode
	shards [64]struct {
		sync.Mutex
		m map[[16]byte]int8
	}
	stackMu  sync.Mutex
	stack    []node
	pending  atomic.Int64
	st       stats
	mu       sync.Mutex
	ends     map[string]int64
	outcomes map[string]struct{}
	found    map[string]found
	deadline time.Time
	timedOut atomic.Bool
	workers  int
	sample   []string
}

func newExplorer(w *world, mode Mode, workers int, deadline time.Time) *Explorer {
	e := &Explorer{w: w, mode: mode, ends: map[string]int64{}, outcomes: map[string]struct{}{}, found: map[string]found{}, deadline: deadline, workers: workers}
	for i := range e.shards {
		e.shards[i].m = map[[16]byte]int8{}
	}
	return e
}

// visit returns true if the state must be expanded with the given budget (and records it).
func (e *Explorer) visit(key string, budget int) bool {
	h := sha256.Sum256([]byte(key))
	var k [16]byte
	copy(k[:], h[:16])
	sh := &e.shards[h[16]%64]
	sh.Lock()
	defer sh.Unlock()
	if b, ok := sh.m[k]; ok {
		if int(b) >= budget {
			return false
		}
	} else {
		e.st.states.Add(1)
	}
	sh.m[k] = int8(budget)
	return true
}

func (e *Explorer) push(n node) {
	e.pending.Add(1)
	e.stackMu.Lock()
	e.stack = append(e.stack, n)
	e.stackMu.Unlock()
}

func (e *Explorer) pop() (node, bool) {
	e.stackMu.Lock()
	defer e.stackMu.Unlock()
	if len(e.stack) == 0 {
		return node{}, false
	}
	n := e.stack[len(e.stack)-1]
	e.stack = e.stack[:len(e.stack)-1]
	return n, true
}

// Run explores all executions with at most K deviations (iterating the bound 0..K) and returns the
// largest bound completed.
func (e *Explorer) Run(K int) (completed int) {
	completed = -1
	for k := 0; k <= K; k++ {
		e.push(node{budget: k})
		var wg sync.WaitGroup
		for i := 0; i < e.workers; i++ {
			wg.Add(1)
			go func() {
				defer wg.Done()
				for {
					n, ok := e.pop()
					if !ok {
						if e.pending.Load() == 0 {
							return
						}
						time.Sleep(200 * time.Microsecond)
						continue
					}
					if !e.timedOut.Load() {
						if time.Now().After(e.deadline) {
							e.timedOut.Store(true)
						} else {
							e.runNode(n)
						}
					}
					e.pending.Add(-1)
				}
			}()
		}
		wg.Wait()
		if e.timedOut.Load() {
			return completed
		}
		completed = k
		e.mu.Lock()
		nf := len(e.found)
		e.mu.Unlock()
		if nf > 0 {
			return completed
		}
	}
	return completed
}

func isDeviation(label string) bool {
	return label[0] != 'D' && label[0] != 'T' && label[0] != 'P' && label[0] != 'W'
}

func (e *Explorer) runNode(n node) {
	for attempt := 0; ; attempt++ {
		if e.runOnce(n) {
			return
		}
		if attempt >= 2 {
			e.st.diverged.Add(1)
			return
		}
	}
}

// runOnce executes one node; it returns false if replaying the prefix diverged.
func (e *Explorer) runOnce(n node) bool {
	mode := e.mode
	mode.syncRun = true
	for _, l := range n.prefix {
		if isDeviation(l) {
			mode.syncRun = false
		}
	}
	s := newSystem(e.w, &mode)
	for _, l := range n.prefix {
		a, err := parseAction(l)
		if err == nil {
			err = s.apply(a)
		}
		if err != nil {
			return false
		}
	}
	e.st.executions.Add(1)
	budget := n.budget
	ended := ""
	for {
		if r, ok := s.done(); ok {
			ended = r
			break
		}
		if !e.visit(s.key(), budget) {
			e.st.pruned.Add(1)
			ended = "pruned"
			break
		}
		nForged := 0
		for _, l := range s.trace {
			if l[0] == 'F' {
				nForged++
			}
		}
		if mode.Forge && s.w.sc.Byz >= 0 && nForged < maxForgeries {
			// forgeries cost no deviation budget (they exist only where a validator is unsound) but are bounded
			// per execution
			p0 := s.probes
			if fs := s.probeForgeries(); len(fs) > 0 {
				e.st.forged.Add(int64(len(fs)))
				base := append([]string(nil), s.trace...)
				for i := len(fs) - 1; i >= 0; i-- {
					p := make([]string, len(base)+1)
					copy(p, base)
					p[len(base)] = fs[i].String()
					e.push(node{prefix: p, budget: budget})
				}
			}
			e.st.probes.Add(int64(s.probes - p0))
		}
		if budget > 0 {
			devs := s.deviations()
			if len(devs) > 0 {
				e.st.expanded.Add(int64(len(devs)))
				base := append([]string(nil), s.trace...)
				for i := len(devs) - 1; i >= 0; i-- {
					p := make([]string, len(base)+1)
					copy(p, base)
					p[len(base)] = devs[i].String()
					e.push(node{prefix: p, budget: budget - 1})
				}
			}
		}
		def, _ := s.defaultAction()
		if err := s.apply(def); err != nil {
			panic(fmt.Sprintf("default action %v not enabled: %v", def, err))
		}
	}
	e.st.transitions.Add(int64(s.events))
	if ended != "pruned" {
		s.mon.endOfRun(ended)
	}
	e.collect(s, ended)
	return true
}

func outcome(s *System, ended string) string {
	var sb strings.Builder
	sb.WriteString(ended)
	for _, i := range s.w.sc.Honest() {
		h := s.hosts[i]
		insts := make([]int, 0, len(h.decided))
		for k := range h.decided {
			insts = append(insts, int(k))
		}
		sort.Ints(insts)
		fmt.Fprintf(&sb, " p%d:", i)
		for _, k := range insts {
			fmt.Fprintf(&sb, "%s@r%d,", chainStr(h.decided[uint64(k)].Vote.Value), 0)
		}
	}
	return sb.String()
}

func (e *Explorer) collect(s *System, ended string) {
	e.mu.Lock()
	defer e.mu.Unlock()
	e.ends[ended]++
	if ended != "pruned" {
		o := outcome(s, ended)
		if _, ok := e.outcomes[o]; !ok && len(e.outcomes) < 100000 {
			e.outcomes[o] = struct{}{}
		}
		if len(e.sample) < 3 && len(s.trace) > 0 {
			t := s.trace
			if len(t) > 60 && os.Getenv("VERIF_E1_FULLTRACE") == "" {
				t = append(append([]string{}, t[:60]...), "…")
			}
			e.sample = append(e.sample, strings.Join(t, " ")+" => "+o)
		}
	}
	for _, f := range s.mon.failures {
		if f.prop != e.mode.Prop {
			continue
		}
		if _, ok := e.found[f.fp]; !ok {
			e.found[f.fp] = found{f: f, trace: append([]string(nil), s.trace...), sc: s.w.sc, mode: e.mode}
		}
	}
}

// replayTrace re-executes a complete recorded trace on a fresh system without the explorer and
// returns the failures the monitors raise.
func replayTrace(w *world, mode Mode, trace []string) ([]failure, string, error) {
	mode.syncRun = true
	for _, l := range trace {
		if isDeviation(l) {
			mode.syncRun = false
		}
	}
	s := newSystem(w, &mode)
	for i, l := range trace {
		a, err := parseAction(l)
		if err == nil {
			err = s.apply(a)
		}
		if err != nil {
			return nil, "", fmt.Errorf("step %d (%s): %w", i, l, err)
		}
	}
	ended := "prefix"
	if r, ok := s.done(); ok {
		ended = r
		s.mon.endOfRun(ended)
	}
	var desc strings.Builder
	for _, r := range s.msgs {
		fmt.Fprintf(&desc, "%s\n", r.desc)
	}
	return s.mon.failures, desc.String(), nil
}
