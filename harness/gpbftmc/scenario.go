package main

import (
	"fmt"
	"math"
	"sort"
	"strings"
	"time"

	"github.com/filecoin-project/go-f3/certs"
	"github.com/filecoin-project/go-f3/gpbft"
	"github.com/filecoin-project/go-f3/sim/signing"
)

const networkName = gpbft.NetworkName("verif-mc")

var baseTime = time.Unix(1_700_000_000, 0).UTC()

// A Scenario closes the system: who takes part with what power, who is Byzantine / silent, what every
// honest participant proposes in every instance, the beacon (decides CONVERGE tickets) and the bounds.
type Scenario struct {
	Name              string
	Powers            []int64    // power of participant i (ActorID = i+1)
	Byz               int        // index of the Byzantine identity, -1 if none
	Silent            []int      // crash-silent members (hold power, never send, never observed)
	Inputs            [][]string // Inputs[instance][participant] = branch pattern, e.g. "aa", "a", "f", ""
	Beacon            string
	Instances         int
	MaxRound          uint64  // executions stop (bound reached) when an honest participant exceeds this round
	QualityMultiplier float64 // gpbft.WithQualityDeltaMultiplier, if non-zero
	OddSupp           []int   // participants whose view of the supplemental data (next power table) differs from the others'
}

func (s *Scenario) oddSupp(i int) bool {
	for _, x := range s.OddSupp {
		if x == i {
			return true
		}
	}
	return false
}

func (s *Scenario) N() int { return len(s.Powers) }

func (s *Scenario) isSilent(i int) bool {
	for _, x := range s.Silent {
		if x == i {
			return true
		}
	}
	return false
}

// Honest returns the indices of the honest, live participants.
func (s *Scenario) Honest() []int {
	var out []int
	for i := range s.Powers {
		if i != s.Byz && !s.isSilent(i) {
			out = append(out, i)
		}
	}
	return out
}

func (s *Scenario) String() string {
	var in []string
	for _, row := range s.Inputs {
		in = append(in, strings.Join(row, ","))
	}
	return fmt.Sprintf("%s{pow=%v byz=%d silent=%v in=[%s] beacon=%s inst=%d}", s.Name, s.Powers, s.Byz, s.Silent, strings.Join(in, " | "), s.Beacon, s.Instances)
}

// world holds the immutable per-scenario objects shared by all executions.
type world struct {
	sc      *Scenario
	backend *signing.FakeBackend // used only while building the world; executions use their own copy
	entries gpbft.PowerEntries   // canonical order
	ptCid   gpbft.SupplementalData
	supp    gpbft.SupplementalData
	pubkeys map[gpbft.ActorID]gpbft.PubKey
}

func actor(i int) gpbft.ActorID { return gpbft.ActorID(i + 1) }

func newWorld(sc *Scenario) *world {
	w := &world{sc: sc, backend: signing.NewFakeBackend(), pubkeys: map[gpbft.ActorID]gpbft.PubKey{}}
	for i, p := range sc.Powers {
		pk := w.backend.Allow(i)
		w.pubkeys[actor(i)] = pk
		w.entries = append(w.entries, gpbft.PowerEntry{ID: actor(i), Power: gpbft.NewStoragePower(p), PubKey: pk})
	}
	sort.Sort(w.entries)
	c, err := certs.MakePowerTableCID(w.entries)
	if err != nil {
		panic(err)
	}
	w.supp = gpbft.SupplementalData{PowerTable: c}
	return w
}

// newBackend returns a private signing backend (same deterministic keys) so that parallel executions
// do not contend on one RWMutex.
func (w *world) newBackend() *signing.FakeBackend {
	b := signing.NewFakeBackend()
	for i := range w.sc.Powers {
		b.Allow(i)
	}
	return b
}

func (w *world) newPowerTable() *gpbft.PowerTable {
	pt := gpbft.NewPowerTable()
	if err := pt.Add(w.entries...); err != nil {
		panic(err)
	}
	return pt
}

// tipset builds the tipset of branch br at epoch e.
func (w *world) tipset(br string, e int64) *gpbft.TipSet {
	return &gpbft.TipSet{Epoch: e, Key: []byte(fmt.Sprintf("%s%d", br, e)), PowerTable: w.supp.PowerTable}
}

func (w *world) genesis() *gpbft.TipSet { return w.tipset("g", 0) }

// chainFrom extends base with one tipset per letter of pattern: the letter is the branch name.
func (w *world) chainFrom(base *gpbft.TipSet, pattern string) *gpbft.ECChain {
	ts := []*gpbft.TipSet{base}
	e := base.Epoch
	for _, ch := range pattern {
		e++
		ts = append(ts, w.tipset(string(ch), e))
	}
	return &gpbft.ECChain{TipSets: ts}
}

func chainStr(c *gpbft.ECChain) string {
	if c.IsZero() {
		return "⊥"
	}
	var sb strings.Builder
	for i, t := range c.TipSets {
		if i > 0 {
			sb.WriteByte('.')
		}
		sb.Write(t.Key)
	}
	return sb.String()
}

// ---- scenario matrix -------------------------------------------------------------------------------

func sc(name string, powers []int64, byz int, silent []int, beacon string, maxRound uint64, inputs ...[]string) *Scenario {
	return &Scenario{Name: name, Powers: powers, Byz: byz, Silent: silent, Inputs: inputs, Beacon: beacon,
		Instances: len(inputs), MaxRound: maxRound}
}

var eq4 = []int64{1, 1, 1, 1}
var w4 = []int64{3, 2, 2, 3}
var dust4 = []int64{1, 1_000_000, 1_000_000, 1_000_000}

// coreScenarios: small set explored in the quick tier.
func coreScenarios() []*Scenario {
	return []*Scenario{
		hon4odd,
		sc("eq4-byz-agree", eq4, 3, nil, "b0", 2, []string{"aa", "aa", "aa", ""}),
		sc("eq4-byz-split", eq4, 3, nil, "b1", 2, []string{"aa", "a", "f", ""}),
		sc("eq4-byz-prefix", eq4, 3, nil, "b2", 2, []string{"aa", "aa", "a", ""}),
		sc("eq4-honest-prefix", eq4, -1, nil, "b0", 2, []string{"aa", "aa", "aa", "a"}),
		sc("w4-byz-fork", w4, 3, nil, "b1", 2, []string{"aa", "af", "a", ""}),
		sc("dust4-byz", dust4, 0, nil, "b0", 2, []string{"", "a", "aa", "aa"}),
		sc("dust4-honest", dust4, -1, nil, "b1", 2, []string{"aa", "a", "aa", "a"}),
		// a fractional QUALITY timeout multiplier (a legal configuration) must not change what unanimous inputs decide
		func() *Scenario {
			s := sc("eq3-quality-x0.75", []int64{1, 1, 1}, -1, nil, "b0", 2, []string{"aa", "aa", "aa"})
			s.QualityMultiplier = 0.75
			return s
		}(),
	}
}

// byzOnlyScenarios: power distributions chosen for what a Byzantine member could do with them if a validator
// were unsound (explored in the Byzantine mode only): a Byzantine member that forms a DECIDE quorum with a single
// honest member; a member holding more than two thirds alone next to a Byzantine minnow.
func byzOnlyScenarios() []*Scenario {
	return []*Scenario{
		sc("skew4-byz", []int64{2, 31, 35, 32}, 3, nil, "b0", 2, []string{"a", "a", "a", ""}),
		sc("whale4-byz", []int64{7, 1, 1, 1}, 3, nil, "b1", 2, []string{"a", "a", "aa", ""}),
		// a Byzantine member that forms a strong quorum with the largest honest member alone
		func() *Scenario {
			s := sc("big4-byz", []int64{40, 20, 10, 30}, 3, nil, "", 2, []string{"a", "a", "a", ""})
			s.Beacon = byzWinsBeacon(s, 1)
			return s
		}(),
	}
}

// moreScenarios: added in the thorough tier.
func moreScenarios() []*Scenario {
	return []*Scenario{
		sc("eq4-byz-fork2", eq4, 3, nil, "b3", 2, []string{"aa", "ff", "a", ""}),
		sc("eq4-byz-base", eq4, 3, nil, "b4", 2, []string{"a", "f", "", ""}),
		sc("eq4-silent", eq4, -1, []int{3}, "b0", 3, []string{"aa", "a", "aa", ""}),
		sc("w4-byz-agree", w4, 3, nil, "b2", 2, []string{"aa", "aa", "aa", ""}),
		sc("w4-honest-fork", w4, -1, nil, "b3", 2, []string{"aa", "a", "f", "aa"}),
		sc("eq3-honest", []int64{1, 1, 1}, -1, nil, "b0", 2, []string{"aa", "a", "f"}),
		sc("eq4-byz-2inst", eq4, 3, nil, "b1", 2, []string{"aa", "a", "aa", ""}, []string{"a", "f", "a", ""}),
	}
}

// policyScenarios: scenarios explored around a non-synchronous base schedule (lagging participant,
// partition with an echoing Byzantine participant).
type policyPlan struct {
	sc     *Scenario
	pol    Policy
	byz    bool // explore Byzantine deviations (else honest-network deviations)
	byzAll bool // ... as broadcasts to all honest participants
}

// byzWinsBeacon returns a beacon for which the Byzantine participant holds the best ticket of the given round
// of instance 0 (tickets are deterministic signatures over the beacon).
func byzWinsBeacon(sc *Scenario, round uint64) string {
	for n := 0; n < 256; n++ {
		b := fmt.Sprintf("w%d", n)
		probe := *sc
		probe.Beacon = b
		w := newWorld(&probe)
		be := w.newBackend()
		pt := w.newPowerTable()
		best, bestRank := -1, math.Inf(1)
		for i := range sc.Powers {
			pw, pk := pt.Get(actor(i))
			t, err := be.Sign(ctx, pk, gpbft.VerifVRFInput([]byte(b+"0"), 0, round, networkName))
			if err != nil {
				panic(err)
			}
			if r := gpbft.ComputeTicketRank(t, pw); r < bestRank {
				best, bestRank = i, r
			}
		}
		if best == sc.Byz {
			return b
		}
	}
	panic("no beacon found")
}

var (
	hon4split = sc("hon4-split", eq4, -1, nil, "b2", 3, []string{"aa", "a", "f", ""})
	// the fourth member votes QUALITY(a), PREPARE(base), COMMIT(bottom) and crashes (round 0 fails: everybody commits bottom);
	// the third, whose input diverges, starts while the other two are preparing in round 1 and need it
	eq4crash = sc("eq4-crash-late-diverging", eq4, 3, nil, "b0", 4, []string{"a", "a", "f", ""})
	hon4pref = sc("hon4-prefix", eq4, -1, nil, "b1", 3, []string{"aa", "aa", "a", "a"})
	w5lag    = sc("w5-lag-byz", []int64{2, 2, 2, 1, 1}, 4, nil, "b0", 3, []string{"aa", "a", "af", "a", ""})
	triBound = sc("tri-boundary", []int64{21845, 21845, 21844}, 2, nil, "b0", 2, []string{"aa", "f", ""})
	eq4part  = sc("eq4-partition", eq4, 3, nil, "b1", 2, []string{"aa", "a", "f", ""})
	eq4slow  = sc("eq4-slow-links", eq4, 3, nil, "b2", 3, []string{"aa", "aa", "a", ""})
	eq6slow  = func() *Scenario {
		s := sc("eq6-two-thirds-view", []int64{1, 1, 1, 1, 1, 1}, 5, nil, "", 2, []string{"a", "a", "a", "a", "a", ""})
		s.Beacon = byzWinsBeacon(s, 1)
		return s
	}()
)

func policyPlans(thorough bool) []policyPlan {
	out := []policyPlan{
		{hon4split, Policy{Kind: "lag", Lagger: 3, FlushRound: 1, LIFO: true}, false, false},
		{hon4split, Policy{Kind: "lag", Lagger: 0, FlushRound: 2, LIFO: false}, false, false},
		{hon4pref, Policy{Kind: "lag", Lagger: 2, FlushRound: 1, LIFO: true}, false, false},
		{w5lag, Policy{Kind: "lag", Lagger: 3, FlushRound: 1, LIFO: true}, true, false},
		// a member that starts the instance after the others have decided without it: everything sent (and whatever the
		// Byzantine member adds) is waiting in its queue when it starts
		{w5lag, Policy{Kind: "latestart", Lagger: 3}, true, false},
		{hon4pref, Policy{Kind: "latestart", Lagger: 1, FlushRound: 1}, false, false},
		// a member with a diverging input starts while the others are already preparing in round 1 after a failed round
		// 0: it finds their round-1 messages queued and must still get to a decision with them
		{eq4crash, Policy{Kind: "latestart", Lagger: 2, FlushRound: 1, FlushPhase: gpbft.PREPARE_PHASE, Prelude: []string{"0.1.0.=a", "0.3.0.=", "0.4.0._"}}, false, false},
		{triBound, Policy{Kind: "partition", Groups: [][]int{{0}, {1}}, Echo: true, HealAfter: 0}, true, false},
		{eq4part, Policy{Kind: "partition", Groups: [][]int{{0}, {1, 2}}, Echo: true, HealAfter: 120}, true, false},
	}
	Q, C, P := gpbft.QUALITY_PHASE, gpbft.COMMIT_PHASE, gpbft.PREPARE_PHASE
	out = append(out,
		// a slow QUALITY link makes proposals differ (round 0 fails); slow COMMIT links make p0 advance on borrowed justifications
		policyPlan{eq4slow, Policy{Kind: "slow", Slow: []Link{{2, 1, Q}, {1, 0, C}, {2, 0, C}}}, true, false},
		policyPlan{eq4slow, Policy{Kind: "slow", Slow: []Link{{2, 1, Q}, {0, 2, P}, {1, 2, P}}}, true, false},
		policyPlan{hon4split, Policy{Kind: "slow", Slow: []Link{{0, 3, C}, {1, 3, C}, {2, 3, C}, {0, 3, P}}}, false, false},
		// six equal members: a strong quorum is exactly 2/3; slow QUALITY links make round 0 fail, one member's COMMITs
		// are late for everybody (each of the others advances with an exactly-2/3 view), the Byzantine member holds the
		// best round-1 ticket and broadcasts
		policyPlan{eq6slow, Policy{Kind: "slow", Slow: []Link{{3, 0, Q}, {3, 1, Q}, {4, 0, Q}, {4, 1, Q}, {4, 0, C}, {4, 1, C}, {4, 2, C}, {4, 3, C}}}, true, true},
	)
	if thorough {
		out = append(out,
			policyPlan{eq4slow, Policy{Kind: "slow", Slow: []Link{{2, 1, Q}, {2, 0, Q}, {1, 0, C}}}, true, false},
			policyPlan{eq4slow, Policy{Kind: "slow", Slow: []Link{{0, 1, Q}, {1, 0, C}, {2, 0, C}, {1, 0, P}}}, false, false},
			policyPlan{hon4split, Policy{Kind: "lag", Lagger: 1, FlushRound: 2, LIFO: true}, false, false},
			policyPlan{w5lag, Policy{Kind: "lag", Lagger: 3, FlushRound: 2, LIFO: false}, true, false},
			policyPlan{w5lag, Policy{Kind: "lag", Lagger: 0, FlushRound: 1, LIFO: true}, false, false},
			policyPlan{triBound, Policy{Kind: "partition", Groups: [][]int{{0}, {1}}, Echo: true, HealAfter: 150}, true, false},
			policyPlan{eq4part, Policy{Kind: "partition", Groups: [][]int{{0, 1}, {2}}, Echo: true, HealAfter: 0}, true, false},
		)
	}
	return out
}

var hon4odd = func() *Scenario {
	s := sc("hon4-odd-supplemental", eq4, -1, nil, "b0", 2, []string{"aa", "aa", "aa", "aa"})
	s.OddSupp = []int{3}
	return s
}()

func scenarioByName(name string) *Scenario {
	for _, s := range append(append(append(coreScenarios(), moreScenarios()...), byzOnlyScenarios()...), hon4split, hon4pref, eq4crash, w5lag, triBound, eq4part, eq4slow, hon4odd, eq6slow) {
		if s.Name == name {
			return s
		}
	}
	return nil
}
