package main

import (
	"errors"
	"fmt"
	"io"
	"math"
	"math/big"
	"sort"
	"strings"
	"time"

	"github.com/filecoin-project/go-f3/certs"
	"github.com/filecoin-project/go-f3/gpbft"
	"github.com/filecoin-project/go-f3/internal/verif/vfix"
)

// failure is one monitor verdict; prop decides which check it belongs to.
type failure struct {
	prop string
	fp   string // fingerprint class (stable across executions)
	what string
}

// refTally is the boring per-participant reference of what was delivered to (and accepted by) it.
type refTally struct {
	// first vote per sender, per (round, phase)
	votes map[slot]map[gpbft.ActorID]*gpbft.ECChain
	// first CONVERGE per sender per round: rank and value
	conv map[uint64]map[gpbft.ActorID]convVote
	// values for which a justification was delivered
	proven map[gpbft.ECChainKey]bool
}

type slot struct {
	round uint64
	phase gpbft.Phase
}

type convVote struct {
	val  *gpbft.ECChain
	rank float64
}

func newRefTally() *refTally {
	return &refTally{votes: map[slot]map[gpbft.ActorID]*gpbft.ECChain{}, conv: map[uint64]map[gpbft.ActorID]convVote{}, proven: map[gpbft.ECChainKey]bool{}}
}

type partMon struct {
	last     gpbft.InstanceProgress
	sentSlot map[gpbft.Instant]bool
	tally    map[uint64]*refTally // per instance
	// per instance: value of own PREPARE per round, time of PREPARE broadcast per round
	prepVal  map[uint64]map[uint64]*gpbft.ECChain
	prepTime map[uint64]map[uint64]time.Time
	ownConv  map[uint64]map[uint64]*gpbft.ECChain
	// messages waiting for an instance the participant has not begun: the participant's queue keeps one message
	// per (instance, sender, round, step) — the first — and judges it (base, supplemental data) when it begins
	queued map[string]bool
}

type monitors struct {
	s        *System
	parts    map[int]*partMon
	failures []failure
	pt       *gpbft.PowerTable
	// all honest proposals made so far per instance
	proposals map[uint64][]*gpbft.ECChain
}

func newMonitors(s *System) *monitors {
	m := &monitors{s: s, parts: map[int]*partMon{}, proposals: map[uint64][]*gpbft.ECChain{}, pt: s.w.newPowerTable()}
	for _, i := range s.w.sc.Honest() {
		m.parts[i] = &partMon{sentSlot: map[gpbft.Instant]bool{}, tally: map[uint64]*refTally{},
			prepVal: map[uint64]map[uint64]*gpbft.ECChain{}, prepTime: map[uint64]map[uint64]time.Time{}, ownConv: map[uint64]map[uint64]*gpbft.ECChain{}, queued: map[string]bool{}}
	}
	return m
}

func (m *monitors) fail(prop, fp, what string) {
	for _, f := range m.failures {
		if f.prop == prop && f.fp == fp {
			return
		}
	}
	m.failures = append(m.failures, failure{prop, fp, what})
}

func (m *monitors) want(prop string) bool { return m.s.mode.Prop == prop }

func (pm *partMon) tallyFor(inst uint64) *refTally {
	t := pm.tally[inst]
	if t == nil {
		t = newRefTally()
		pm.tally[inst] = t
	}
	return t
}

func (m *monitors) power(id gpbft.ActorID) int64 {
	p, _ := m.pt.Get(id)
	return p
}

func (m *monitors) strong(p int64) bool {
	// exact rational arithmetic: 3p >= 2*total
	return new(big.Int).Mul(big.NewInt(3), big.NewInt(p)).Cmp(new(big.Int).Mul(big.NewInt(2), big.NewInt(m.pt.ScaledTotal))) >= 0
}

// ---- hooks ------------------------------------------------------------------------------------------

func (m *monitors) onProposal(p int, inst uint64, chain *gpbft.ECChain) {
	m.proposals[inst] = append(m.proposals[inst], chain)
}

func isValidationErr(err error) bool {
	var ve gpbft.ValidationError
	return errors.As(err, &ve)
}

func (m *monitors) onAPIError(p int, api string, err error) {
	if err == nil {
		return
	}
	var pe *gpbft.PanicError
	if errors.As(err, &pe) {
		cause := fmt.Sprint(pe.Cause)
		if strings.Contains(cause, "multiple chains with strong quorum") {
			m.fail("C01", "panic-multiple-strong-quorums", fmt.Sprintf("p%d %s: %s", p, api, cause))
		}
		m.fail("C07", "panic:"+firstLine(cause), fmt.Sprintf("p%d %s panicked: %s", p, api, cause))
		return
	}
	if isValidationErr(err) && api == "ReceiveMessage" {
		return // late-binding validation (wrong base / supplemental data): message dropped, not an internal error
	}
	m.fail("C07", "internal-error:"+api, fmt.Sprintf("p%d %s returned %v", p, api, err))
}

func firstLine(s string) string {
	if i := strings.IndexByte(s, '\n'); i >= 0 {
		s = s[:i]
	}
	if len(s) > 60 {
		s = s[:60]
	}
	return s
}

// onValidation sees every validation verdict.
func (m *monitors) onValidation(to int, rec *msgRec, before gpbft.InstanceProgress, err error) {
	if err == nil {
		return
	}
	if !rec.byz {
		// An honest message is valid by construction (rule 2 checks that with the observer); it may be
		// irrelevant / too old, but it must never be branded invalid and validation must not panic.
		var pe *gpbft.PanicError
		switch {
		case errors.As(err, &pe):
			m.fail("C07", "validate-panic", fmt.Sprintf("p%d panicked validating %s: %v", to, rec.desc, pe.Cause))
		case errors.Is(err, gpbft.ErrValidationInvalid):
			m.fail("C07", "honest-message-branded-invalid:"+rec.msg.Vote.Phase.String(), fmt.Sprintf("p%d (at %v) rejected honest %s as invalid: %v", to, before.Instant, rec.desc, err))
		}
	}
}

// onAccepted runs before ReceiveMessage for a message that passed validation: update the reference tally.
func (m *monitors) onAccepted(to int, rec *msgRec, before gpbft.InstanceProgress) {
	pm := m.parts[to]
	msg := rec.msg
	if msg.Vote.Instance < before.ID {
		return // dropped by the participant as old
	}
	if m.s.hosts[to].bases[msg.Vote.Instance] == nil {
		// not begun yet: queued; a second message of the same sender for the same round and step is dropped by the
		// queue, whatever becomes of the first when the instance begins
		k := fmt.Sprintf("%d.%d.%d.%d", msg.Vote.Instance, msg.Sender, msg.Vote.Round, msg.Vote.Phase)
		if pm.queued[k] {
			return
		}
		pm.queued[k] = true
	}
	// Messages with foreign base / supplemental data are dropped before touching state.
	if base := m.baseOf(to, msg.Vote.Instance); base != nil && !msg.Vote.Value.IsZero() && !msg.Vote.Value.HasBase(base) {
		return
	}
	if mine := m.s.suppOf(to); !msg.Vote.SupplementalData.Eq(&mine) {
		return // foreign supplemental data: dropped before touching state
	}
	t := pm.tallyFor(msg.Vote.Instance)
	if j := msg.Justification; j != nil && !j.Vote.Value.IsZero() {
		t.proven[j.Vote.Value.Key()] = true
	}
	if msg.Vote.Phase == gpbft.DECIDE_PHASE || msg.Vote.Phase == gpbft.COMMIT_PHASE || msg.Vote.Phase == gpbft.PREPARE_PHASE || msg.Vote.Phase == gpbft.QUALITY_PHASE {
		sl := slot{msg.Vote.Round, msg.Vote.Phase}
		if t.votes[sl] == nil {
			t.votes[sl] = map[gpbft.ActorID]*gpbft.ECChain{}
		}
		if _, dup := t.votes[sl][msg.Sender]; !dup {
			t.votes[sl][msg.Sender] = msg.Vote.Value
		}
	}
	if msg.Vote.Phase == gpbft.CONVERGE_PHASE {
		if t.conv[msg.Vote.Round] == nil {
			t.conv[msg.Vote.Round] = map[gpbft.ActorID]convVote{}
		}
		if _, dup := t.conv[msg.Vote.Round][msg.Sender]; !dup {
			t.conv[msg.Vote.Round][msg.Sender] = convVote{msg.Vote.Value, gpbft.ComputeTicketRank(msg.Ticket, m.power(msg.Sender))}
		}
	}
}

// baseOf returns the base p entered inst with (nil if p has not started inst yet: then the base check
// happens later, at drain time, against the base p will then have — by C01 the decided head).
func (m *monitors) baseOf(p int, inst uint64) *gpbft.TipSet {
	if b := m.s.hosts[p].bases[inst]; b != nil {
		return b
	}
	return m.s.instanceBase(inst)
}

// support returns the power of first-votes for exactly v in slot sl, the total power of all voters, and
// for QUALITY the power supporting v as a prefix.
func (t *refTally) support(m *monitors, sl slot, v *gpbft.ECChain, prefixes bool) (sup, senders int64) {
	for id, val := range t.votes[sl] {
		p := m.power(id)
		senders += p
		if prefixes {
			if v.Len() > 1 && val.HasPrefix(v) {
				sup += p
			}
		} else if val.Eq(v) {
			sup += p
		}
	}
	return
}

func (m *monitors) onBroadcast(p int, rec *msgRec) {
	pm := m.parts[p]
	msg := rec.msg
	h := m.s.hosts[p]
	inst := msg.Vote.Instance
	instant := gpbft.Instant{ID: inst, Round: msg.Vote.Round, Phase: msg.Vote.Phase}
	// rule 1
	if pm.sentSlot[instant] {
		m.fail("C07", "second-broadcast:"+msg.Vote.Phase.String(), fmt.Sprintf("p%d broadcast a second message for %v: %s", p, instant, rec.desc))
	}
	pm.sentSlot[instant] = true
	if msg.Vote.Phase == gpbft.DECIDE_PHASE && msg.Vote.Round != 0 {
		m.fail("C07", "decide-nonzero-round", fmt.Sprintf("p%d DECIDE with round %d", p, msg.Vote.Round))
	}
	if !m.want("C07") {
		return
	}
	// rule 2: acceptable to a fresh peer
	if _, err := m.s.obs.ValidateMessage(ctx, msg); err != nil {
		m.fail("C07", "own-message-rejected-by-peer:"+msg.Vote.Phase.String(), fmt.Sprintf("fresh peer rejects p%d's %s: %v", p, rec.desc, err))
	}
	input := h.inputs[inst]
	t := pm.tallyFor(inst)
	v := msg.Vote.Value
	if pm.prepVal[inst] == nil {
		pm.prepVal[inst] = map[uint64]*gpbft.ECChain{}
		pm.prepTime[inst] = map[uint64]time.Time{}
		pm.ownConv[inst] = map[uint64]*gpbft.ECChain{}
	}
	switch msg.Vote.Phase {
	case gpbft.QUALITY_PHASE:
		if !v.Eq(input) {
			m.fail("C07", "quality-not-input", fmt.Sprintf("p%d QUALITY %s != input %s", p, chainStr(v), chainStr(input)))
		}
	case gpbft.CONVERGE_PHASE:
		pm.ownConv[inst][msg.Vote.Round] = v
	case gpbft.PREPARE_PHASE:
		pm.prepVal[inst][msg.Vote.Round] = v
		pm.prepTime[inst][msg.Vote.Round] = h.now
		if msg.Vote.Round == 0 {
			// rule 5: longest prefix of input with a strong QUALITY quorum among delivered votes, else base.
			want := input.BaseChain()
			for l := input.Len() - 1; l >= 1; l-- {
				pre := input.Prefix(l)
				sup, _ := t.support(m, slot{0, gpbft.QUALITY_PHASE}, pre, true)
				if m.strong(sup) {
					want = pre
					break
				}
			}
			if !v.Eq(want) {
				m.fail("C07", "prepare0-not-longest-quorum-prefix", fmt.Sprintf("p%d PREPARE(0) votes %s but the longest input prefix with a delivered strong QUALITY quorum is %s (input %s)", p, chainStr(v), chainStr(want), chainStr(input)))
			}
		} else if q, ok := pm.prepVal[inst][0]; ok {
			// rule 6: best-ticket CONVERGE value delivered for this round, if a prefix of the QUALITY proposal.
			best, bestRank := (*gpbft.ECChain)(nil), math.Inf(1)
			ownDelivered := false
			for id, cv := range t.conv[msg.Vote.Round] {
				if id == h.id {
					ownDelivered = true
				}
				if cv.rank < bestRank {
					best, bestRank = cv.val, cv.rank
				}
			}
			// own CONVERGE competes with the worst rank until its real ticket is delivered back.
			if own := pm.ownConv[inst][msg.Vote.Round]; own != nil && !ownDelivered && best == nil {
				best = own
			}
			if best != nil && q.HasPrefix(best) && !v.Eq(best) {
				m.fail("C07", "converge-winner-prefix-not-adopted", fmt.Sprintf("p%d PREPARE(%d) votes %s although the best-ticket CONVERGE value delivered is %s, a prefix of its QUALITY proposal %s", p, msg.Vote.Round, chainStr(v), chainStr(best), chainStr(q)))
			}
		}
	case gpbft.COMMIT_PHASE:
		if v.IsZero() {
			r := msg.Vote.Round
			prop, ok := pm.prepVal[inst][r]
			if ok {
				sup, senders := t.support(m, slot{r, gpbft.PREPARE_PHASE}, prop, false)
				// rule 7a
				if m.strong(sup) {
					m.fail("C07", "commit-bottom-despite-prepare-quorum", fmt.Sprintf("p%d COMMIT(%d,⊥) while holding a strong PREPARE quorum (%d) for its proposal %s", p, r, sup, chainStr(prop)))
				}
				// rule 7b
				timeout := pm.prepTime[inst][r].Add(2 * time.Duration(float64(delta)*1.0*math.Pow(backoffExponent, float64(r))))
				if h.now.Before(timeout) {
					possible := sup + (m.pt.ScaledTotal - senders)
					if m.strong(possible) {
						m.fail("C07", "commit-bottom-before-timeout", fmt.Sprintf("p%d COMMIT(%d,⊥) %v before the PREPARE timeout although a quorum for %s is still possible (support %d, voters %d)", p, r, timeout.Sub(h.now), chainStr(prop), sup, senders))
					}
				}
			}
		}
	}
	// rule 8: only values that are prefixes of the own input or proven
	if !v.IsZero() && !input.HasPrefix(v) {
		ok := t.proven[v.Key()]
		if !ok {
			for sl := range t.votes {
				if sl.phase == gpbft.QUALITY_PHASE {
					continue
				}
				if sup, _ := t.support(m, sl, v, false); m.strong(sup) {
					ok = true
					break
				}
			}
		}
		if !ok {
			m.fail("C07", "vote-for-unproven-value:"+msg.Vote.Phase.String(), fmt.Sprintf("p%d votes %s which is neither a prefix of its input %s nor proven to it", p, rec.desc, chainStr(input)))
		}
	}
}

func lessProgress(a, b gpbft.InstanceProgress) bool { // a < b lexicographically
	if a.ID != b.ID {
		return a.ID < b.ID
	}
	if a.Round != b.Round {
		return a.Round < b.Round
	}
	return a.Phase < b.Phase
}

// afterEvent: rule 3 (monotone progress).
func (m *monitors) afterEvent() {
	for _, i := range m.s.w.sc.Honest() {
		pm := m.parts[i]
		cur := m.s.parts[i].Progress()
		if lessProgress(cur, pm.last) {
			m.fail("C07", "progress-went-backwards", fmt.Sprintf("p%d progress %v -> %v", i, pm.last.Instant, cur.Instant))
		}
		pm.last = cur
	}
}

func (m *monitors) onDecision(p int, d *gpbft.Justification) {
	s := m.s
	inst := d.Vote.Instance
	h := s.hosts[p]
	val := d.Vote.Value
	// C01 agreement
	for _, i := range s.w.sc.Honest() {
		if i == p {
			continue
		}
		if o := s.hosts[i].decided[inst]; o != nil && !o.Vote.Value.Eq(val) {
			m.fail("C01", "disagreement", fmt.Sprintf("instance %d: p%d decided %s but p%d decided %s", inst, p, chainStr(val), i, chainStr(o.Vote.Value)))
		}
	}
	// C02 validity
	if val.IsZero() {
		m.fail("C02", "decided-bottom", fmt.Sprintf("p%d decided ⊥ in instance %d", p, inst))
	} else {
		if b := h.bases[inst]; b == nil || !val.Base().Equal(b) {
			m.fail("C02", "decision-wrong-base", fmt.Sprintf("p%d decided %s whose base differs from the base it entered instance %d with", p, chainStr(val), inst))
		}
		ok := false
		for _, in := range m.proposals[inst] {
			if in.HasPrefix(val) {
				ok = true
			}
		}
		if !ok {
			m.fail("C02", "decision-not-prefix-of-honest-input", fmt.Sprintf("p%d decided %s in instance %d, not a prefix of any honest proposal made so far", p, chainStr(val), inst))
		}
	}
	// C03 self-contained proof
	if m.want("C03") {
		m.checkProof(p, d)
	}
}

func (m *monitors) checkProof(p int, d *gpbft.Justification) {
	s := m.s
	inst := d.Vote.Instance
	bad := func(fp, what string) {
		m.fail("C03", fp, fmt.Sprintf("p%d instance %d decision %s: %s", p, inst, chainStr(d.Vote.Value), what))
	}
	if d.Vote.Phase != gpbft.DECIDE_PHASE {
		bad("proof-wrong-phase", fmt.Sprintf("phase %s", d.Vote.Phase))
	}
	if d.Vote.Round != 0 {
		bad("proof-wrong-round", fmt.Sprintf("round %d", d.Vote.Round))
	}
	mySupp := s.suppOf(p)
	if !d.Vote.SupplementalData.Eq(&mySupp) {
		bad("proof-wrong-supplemental", "supplemental data differs from the instance's")
	}
	// instance: the participant was in inst when deciding
	if pr := s.parts[p].Progress(); pr.ID != inst {
		bad("proof-wrong-instance", fmt.Sprintf("justification for instance %d while participant was in %d", inst, pr.ID))
	}
	seen := map[uint64]bool{}
	var idx []int
	var power int64
	err := d.Signers.ForEach(func(i uint64) error {
		if seen[i] {
			bad("proof-duplicate-signer", fmt.Sprintf("index %d twice", i))
		}
		seen[i] = true
		if i >= uint64(len(m.pt.Entries)) {
			bad("proof-signer-out-of-range", fmt.Sprintf("index %d", i))
			return nil
		}
		if m.pt.ScaledPower[i] == 0 {
			bad("proof-zero-power-signer", fmt.Sprintf("index %d", i))
		}
		power += m.pt.ScaledPower[i]
		idx = append(idx, int(i))
		return nil
	})
	if err != nil {
		bad("proof-bad-bitfield", err.Error())
		return
	}
	if !m.strong(power) {
		bad("proof-not-strong-quorum", fmt.Sprintf("signer power %d of %d", power, m.pt.ScaledTotal))
	}
	sort.Ints(idx)
	agg, _ := s.aggregate(m.pt.Entries.PublicKeys())
	payload := gpbft.Payload{Instance: inst, Round: 0, Phase: gpbft.DECIDE_PHASE, SupplementalData: mySupp, Value: d.Vote.Value}
	if err := agg.VerifyAggregate(idx, payload.MarshalForSigning(networkName), d.Signature); err != nil {
		bad("proof-aggregate-invalid", err.Error())
	}
	// certificate acceptance on a node with the same power table
	entries := append(gpbft.PowerEntries{}, s.w.entries...)
	cert, err := certs.NewFinalityCertificate(certs.MakePowerTableDiff(entries, entries), d)
	if err != nil {
		bad("proof-cert-construction", err.Error())
		return
	}
	base := s.hosts[p].bases[inst]
	next, _, _, err := certs.ValidateFinalityCertificates(vfix.KeySetBound{Inner: s.backend}, networkName, entries, inst, base, cert)
	if err != nil || next != inst+1 {
		bad("proof-cert-rejected", fmt.Sprintf("certificate validation: next=%d err=%v", next, err))
	}
}

// endOfRun is called once when the execution has ended.
func (m *monitors) endOfRun(ended string) {
	s := m.s
	if s.mode.Liveness {
		undecided := []int{}
		for _, i := range s.w.sc.Honest() {
			if s.hosts[i].started && !s.hosts[i].finished {
				undecided = append(undecided, i)
			}
		}
		if len(undecided) > 0 {
			switch ended {
			case "round-bound":
				m.fail("C06", "not-decided-within-round-bound", fmt.Sprintf("participants %v undecided although an honest participant passed round %d (stabilisation at round %d, byzantine messages: %d)", undecided, s.roundBound(), s.stabRound, s.byzSent))
			case "stalled":
				m.fail("C06", "stalled-undecided", fmt.Sprintf("participants %v are undecided and no participant has changed its round or step during the last %d events (timers and deliveries), with no message withheld", undecided, stallEvents))
			case "quiescent":
				m.fail("C06", "quiescent-undecided", fmt.Sprintf("no pending event but participants %v are undecided", undecided))
			}
		}
	}
	if s.mode.Prop == "C02" && s.mode.syncRun {
		// second sentence of C02: equal honest inputs, strong honest quorum, synchronous run, no faulty sender.
		sc := s.w.sc
		for inst := 0; inst < sc.Instances; inst++ {
			var in *gpbft.ECChain
			same := true
			var hp int64
			for _, i := range sc.Honest() {
				c := s.hosts[i].inputs[uint64(inst)]
				if c == nil {
					same = false
					break
				}
				if in == nil {
					in = c
				} else if !in.Eq(c) {
					same = false
				}
				hp += m.power(actor(i))
			}
			if !same || !m.strong(hp) {
				continue
			}
			for _, i := range sc.Honest() {
				d := s.hosts[i].decided[uint64(inst)]
				if d == nil || !d.Vote.Value.Eq(in) {
					got := "nothing"
					if d != nil {
						got = chainStr(d.Vote.Value)
					}
					m.fail("C02", "unanimous-input-not-decided", fmt.Sprintf("all honest proposed %s in instance %d of a synchronous fault-free run but p%d decided %s", chainStr(in), inst, i, got))
				}
			}
		}
	}
}

// key adds the monitor state that future verdicts depend on (so that pruning stays sound).
func (m *monitors) key(w io.Writer) {
	if m.want("C07") {
		for _, i := range m.s.w.sc.Honest() {
			pm := m.parts[i]
			fmt.Fprintf(w, "M%d[", i)
			insts := make([]int, 0, len(pm.tally))
			for k := range pm.tally {
				insts = append(insts, int(k))
			}
			sort.Ints(insts)
			for _, k := range insts {
				t := pm.tally[uint64(k)]
				var parts []string
				for sl, vs := range t.votes {
					for id, v := range vs {
						parts = append(parts, fmt.Sprintf("v%d.%d.%d=%s", sl.round, sl.phase, id, chainStr(v)))
					}
				}
				for r, vs := range t.conv {
					for id, cv := range vs {
						parts = append(parts, fmt.Sprintf("c%d.%d=%s@%v", r, id, chainStr(cv.val), cv.rank))
					}
				}
				for kk := range t.proven {
					parts = append(parts, fmt.Sprintf("p%x", kk[:6]))
				}
				for r, v := range pm.prepVal[uint64(k)] {
					parts = append(parts, fmt.Sprintf("P%d=%s@%d", r, chainStr(v), pm.prepTime[uint64(k)][r].Sub(baseTime)))
				}
				sort.Strings(parts)
				fmt.Fprintf(w, "%d:%s;", k, strings.Join(parts, ","))
			}
			var qs []string
			for q := range pm.queued {
				var inst uint64
				fmt.Sscanf(q, "%d.", &inst)
				if m.s.hosts[i].bases[inst] == nil {
					qs = append(qs, q)
				}
			}
			sort.Strings(qs)
			fmt.Fprintf(w, "q%s]", strings.Join(qs, ","))
		}
	}
}
