package main

import (
	"fmt"
	"sort"
	"strconv"
	"strings"

	"github.com/filecoin-project/go-bitfield"
	rlepluslazy "github.com/filecoin-project/go-bitfield/rle"
	"github.com/filecoin-project/go-f3/gpbft"
)

// Byzantine value alphabet: branch patterns over the instance base, bottom ("_") and a chain with a
// foreign base ("z").
var byzPatterns = []string{"aa", "a", "f", "", "x"}

func (s *System) instanceBase(inst uint64) *gpbft.TipSet {
	if inst == 0 {
		return s.w.genesis()
	}
	for _, i := range s.w.sc.Honest() {
		if d := s.hosts[i].decided[inst-1]; d != nil {
			return d.Vote.Value.Head()
		}
	}
	return nil
}

func (s *System) byzValue(inst uint64, name string) (*gpbft.ECChain, error) {
	switch name {
	case "_":
		return &gpbft.ECChain{}, nil
	case "z":
		b := s.instanceBase(inst)
		if b == nil {
			return nil, fmt.Errorf("no base for instance %d", inst)
		}
		return s.w.chainFrom(s.w.tipset("z", b.Epoch), "z"), nil
	default:
		if strings.HasPrefix(name, "=") {
			name = name[1:]
		}
		b := s.instanceBase(inst)
		if b == nil {
			return nil, fmt.Errorf("no base for instance %d", inst)
		}
		return s.w.chainFrom(b, name), nil
	}
}

func valName(p string) string { return "=" + p }

// activeInstances are the instances some unfinished honest participant is currently in.
func (s *System) activeInstances() []uint64 {
	set := map[uint64]bool{}
	for _, i := range s.w.sc.Honest() {
		if !s.hosts[i].finished {
			set[s.parts[i].Progress().ID] = true
		}
	}
	out := make([]uint64, 0, len(set))
	for k := range set {
		if int(k) < s.w.sc.Instances {
			out = append(out, k)
		}
	}
	sort.Slice(out, func(a, b int) bool { return out[a] < out[b] })
	return out
}

type jspec struct {
	phase gpbft.Phase
	round uint64
	val   string // value name
}

// justifiable reports whether B can assemble (or has observed) a strong-quorum justification for
// (phase, round, value) in inst, and returns the signer set (participant indices) to aggregate, or an
// observed justification to reuse.
func (s *System) justifiable(inst uint64, js jspec) ([]int, *gpbft.Justification, bool) {
	val, err := s.byzValue(inst, js.val)
	if err != nil {
		return nil, nil, false
	}
	pt := s.w.newPowerTable()
	signers := map[int]bool{}
	var observed *gpbft.Justification
	for _, r := range s.msgs {
		if r.byz || r.msg.Vote.Instance != inst {
			continue
		}
		m := r.msg
		if m.Vote.Phase == js.phase && m.Vote.Round == js.round && m.Vote.Value.Eq(val) {
			signers[r.from] = true
		}
		if j := m.Justification; j != nil && observed == nil && j.Vote.Phase == js.phase && j.Vote.Round == js.round && j.Vote.Value.Eq(val) {
			observed = j
		}
	}
	if observed != nil {
		return nil, observed, true
	}
	// B may add its own signature (DECIDE justifications are COMMIT votes etc. — B may sign any payload).
	bpow, _ := pt.Get(actor(s.w.sc.Byz))
	if bpow > 0 {
		signers[s.w.sc.Byz] = true
	}
	var total int64
	out := make([]int, 0, len(signers))
	for i := range signers {
		p, _ := pt.Get(actor(i))
		total += p
		out = append(out, i)
	}
	if !gpbft.IsStrongQuorum(total, pt.ScaledTotal) || len(out) == 0 {
		return nil, nil, false
	}
	sort.Ints(out)
	return out, nil, true
}

func (s *System) buildJustification(inst uint64, js jspec) (*gpbft.Justification, error) {
	signers, observed, ok := s.justifiable(inst, js)
	if !ok {
		return nil, fmt.Errorf("justification %v not constructible", js)
	}
	if observed != nil {
		return observed, nil
	}
	val, _ := s.byzValue(inst, js.val)
	if val.IsZero() {
		val = nil
	}
	payload := gpbft.Payload{Instance: inst, Round: js.round, Phase: js.phase, SupplementalData: s.w.supp, Value: val}
	bytesToSign := payload.MarshalForSigning(networkName)
	pt := s.w.newPowerTable()
	idx := make([]int, 0, len(signers))
	byIdx := map[int][]byte{}
	for _, i := range signers {
		sig, err := s.backend.Sign(ctx, s.w.pubkeys[actor(i)], bytesToSign)
		if err != nil {
			return nil, err
		}
		// Knowledge discipline: for honest signers the harness re-derives exactly the signature of a vote
		// that the signer has broadcast (justifiable() only admits those); for B it is B's own key.
		k := pt.Lookup[actor(i)]
		idx = append(idx, k)
		byIdx[k] = sig
	}
	sort.Ints(idx)
	sigs := make([][]byte, len(idx))
	u := make([]uint64, len(idx))
	for n, k := range idx {
		sigs[n] = byIdx[k]
		u[n] = uint64(k)
	}
	agg, err := s.aggregate(pt.Entries.PublicKeys())
	if err != nil {
		return nil, err
	}
	aggSig, err := agg.Aggregate(idx, sigs)
	if err != nil {
		return nil, err
	}
	ri, _ := rlepluslazy.RunsFromSlice(u)
	bf, _ := bitfield.NewFromIter(ri)
	return &gpbft.Justification{Vote: payload, Signers: bf, Signature: aggSig}, nil
}

// byzMenu lists the specs of all Byzantine messages constructible now.
// spec = inst.phase.round.value[/jphase.jround.jvalue]
func (s *System) byzMenu() []string {
	var out []string
	maxR := s.w.sc.MaxRound
	for _, inst := range s.activeInstances() {
		if s.instanceBase(inst) == nil {
			continue
		}
		vals := make([]string, 0, len(byzPatterns))
		for _, p := range byzPatterns {
			vals = append(vals, valName(p))
		}
		add := func(ph gpbft.Phase, r uint64, v string, j *jspec) {
			sp := fmt.Sprintf("%d.%d.%d.%s", inst, ph, r, v)
			if j != nil {
				if _, _, ok := s.justifiable(inst, *j); !ok {
					return
				}
				sp += fmt.Sprintf("/%d.%d.%s", j.phase, j.round, j.val)
			}
			out = append(out, sp)
		}
		for _, v := range append(append([]string{}, vals...), "z") {
			add(gpbft.QUALITY_PHASE, 0, v, nil)
			add(gpbft.PREPARE_PHASE, 0, v, nil)
		}
		add(gpbft.PREPARE_PHASE, 0, "_", nil)
		for r := uint64(0); r <= maxR; r++ {
			add(gpbft.COMMIT_PHASE, r, "_", nil)
			for _, v := range vals {
				add(gpbft.COMMIT_PHASE, r, v, &jspec{gpbft.PREPARE_PHASE, r, v})
				add(gpbft.DECIDE_PHASE, 0, v, &jspec{gpbft.COMMIT_PHASE, r, v})
				if r >= 1 {
					for _, ph := range []gpbft.Phase{gpbft.PREPARE_PHASE, gpbft.CONVERGE_PHASE} {
						add(ph, r, v, &jspec{gpbft.PREPARE_PHASE, r - 1, v})
						add(ph, r, v, &jspec{gpbft.COMMIT_PHASE, r - 1, "_"})
					}
				}
			}
		}
	}
	return out
}

func (s *System) byzBuild(spec string) (*gpbft.GMessage, error) {
	main, jpart, hasJ := strings.Cut(spec, "/")
	f := strings.SplitN(main, ".", 4)
	if len(f) != 4 {
		return nil, fmt.Errorf("bad spec %q", spec)
	}
	inst, e1 := strconv.ParseUint(f[0], 10, 64)
	ph, e2 := strconv.ParseUint(f[1], 10, 8)
	round, e3 := strconv.ParseUint(f[2], 10, 64)
	if e1 != nil || e2 != nil || e3 != nil {
		return nil, fmt.Errorf("bad spec %q", spec)
	}
	val, err := s.byzValue(inst, f[3])
	if err != nil {
		return nil, err
	}
	var just *gpbft.Justification
	if hasJ {
		g := strings.SplitN(jpart, ".", 3)
		if len(g) != 3 {
			return nil, fmt.Errorf("bad spec %q", spec)
		}
		jp, _ := strconv.ParseUint(g[0], 10, 8)
		jr, _ := strconv.ParseUint(g[1], 10, 64)
		just, err = s.buildJustification(inst, jspec{gpbft.Phase(jp), jr, g[2]})
		if err != nil {
			return nil, err
		}
	}
	if val.IsZero() {
		val = &gpbft.ECChain{}
	}
	payload := gpbft.Payload{Instance: inst, Round: round, Phase: gpbft.Phase(ph), SupplementalData: s.w.supp, Value: val}
	bpk := s.w.pubkeys[actor(s.w.sc.Byz)]
	sig, err := s.backend.Sign(ctx, bpk, payload.MarshalForSigning(networkName))
	if err != nil {
		return nil, err
	}
	m := &gpbft.GMessage{Sender: actor(s.w.sc.Byz), Vote: payload, Signature: sig, Justification: just}
	if gpbft.Phase(ph) == gpbft.CONVERGE_PHASE {
		beacon := []byte(s.w.sc.Beacon + strconv.FormatUint(inst, 10))
		m.Ticket, err = s.backend.Sign(ctx, bpk, gpbft.VerifVRFInput(beacon, inst, round, networkName))
		if err != nil {
			return nil, err
		}
	}
	return m, nil
}
