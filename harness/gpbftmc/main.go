// gpbftmc — engine E1: explicit-state, deviation-bounded model checking of the real gpbft.Participant
// (properties C01, C02, C03, C06, C07).  See /verif/DESIGN.md §2.3.
package main

import (
	"encoding/json"
	"flag"
	"fmt"
	"os"
	"runtime"
	"runtime/debug"
	"runtime/pprof"
	"sort"
	"strings"
	"time"

	"github.com/filecoin-project/go-f3/internal/verif/vcommon"
)

type plan struct {
	sc   *Scenario
	mode Mode
	K    int
	time time.Duration
}

func safetyMode(prop, name string, byz bool) Mode {
	m := Mode{Prop: prop, Name: name, Horizon: 600}
	if byz {
		m.Byz, m.Hold, m.Drop = true, true, true
		m.Wire, m.Forge = true, true
	} else {
		m.Delay, m.Hold, m.Drop, m.Dup, m.Early = true, true, true, true, true
	}
	return m
}

func livenessMode(name string, byz bool) Mode {
	m := Mode{Prop: "C06", Name: name, Liveness: true, Horizon: 6000}
	if byz {
		m.Byz, m.Hold = true, true
		m.Wire = true
	} else {
		m.Delay, m.Hold, m.Dup, m.Early = true, true, true, true
	}
	return m
}

func plans(prop string, thorough bool, seed int64) []plan {
	var out []plan
	core := coreScenarios()
	all := append(append([]*Scenario{}, core...), moreScenarios()...)
	scs := core
	if thorough {
		scs = all
	}
	// The seed rotates which scenario gets the deeper bound first (all are explored to the base bound).
	if n := len(scs); n > 0 && seed != 0 {
		r := int(((seed % int64(n)) + int64(n)) % int64(n))
		scs = append(append([]*Scenario{}, scs[r:]...), scs[:r]...)
	}
	for _, sc := range scs {
		switch prop {
		case "C06":
			hp := int64(0)
			var tot int64
			for i, p := range sc.Powers {
				tot += p
				if i != sc.Byz && !sc.isSilent(i) {
					hp += p
				}
			}
			if 3*hp < 2*tot || len(sc.OddSupp) > 0 {
				continue // premise of C06: honest participants (that can hear each other) hold a strong quorum
			}
			if sc.Name == "dust4-byz" || sc.Name == "dust4-honest" {
				// scaled powers decide; the dust member holds no scaled power, the others are a strong quorum.
			}
			kH, kB := 2, 1
			tH, tB := 40*time.Second, 40*time.Second
			if thorough {
				kH, kB = 3, 2
				tH, tB = 100*time.Second, 100*time.Second
			}
			out = append(out, plan{sc, livenessMode("honest-deviations", false), kH, tH})
			if sc.Byz >= 0 {
				out = append(out, plan{sc, livenessMode("byzantine", true), kB, tB})
			}
		default:
			kH, kB := 2, 1
			tH, tB := 25*time.Second, 25*time.Second
			if thorough {
				kH, kB = 3, 2
				tH, tB = 100*time.Second, 100*time.Second
			}
			out = append(out, plan{sc, safetyMode(prop, "honest-deviations", false), kH, tH})
			if sc.Byz >= 0 {
				out = append(out, plan{sc, safetyMode(prop, "byzantine", true), kB, tB})
			}
		}
	}
	for _, sc := range byzOnlyScenarios() {
		k, t := 1, 25*time.Second
		if thorough {
			k, t = 2, 100*time.Second
		}
		if prop == "C06" {
			out = append(out, plan{sc, livenessMode("byzantine", true), k, t})
		} else {
			out = append(out, plan{sc, safetyMode(prop, "byzantine", true), k, t})
		}
	}
	// scenarios around non-synchronous base schedules
	for _, pp := range policyPlans(thorough) {
		k := 1
		t := 20 * time.Second
		if thorough {
			k, t = 2, 100*time.Second
		}
		var m Mode
		if prop == "C06" {
			if pp.pol.Kind == "partition" {
				continue // a partition that never heals is outside the premise of C06
			}
			m = livenessMode(pp.pol.String(), pp.byz)
		} else {
			m = safetyMode(prop, pp.pol.String(), pp.byz)
		}
		m.Policy = pp.pol
		m.ByzAll = pp.byzAll
		m.Wire = true // the schedules around non-synchronous bases all take the two-stage validation route
		out = append(out, plan{pp.sc, m, k, t})
	}
	return out
}

type replayFile struct {
	Scenario string   `json:"scenario"`
	Mode     Mode     `json:"mode"`
	Trace    []string `json:"trace"`
	Messages string   `json:"messages,omitempty"`
	Failure  string   `json:"failure"`
}

func main() {
	prop := flag.String("prop", "", "property id (C01,C02,C03,C06,C07)")
	replay := flag.String("replay", "", "replay artefact to re-execute")
	only := flag.String("scenario", "", "restrict to one scenario")
	kOverride := flag.Int("k", -1, "override deviation bound")
	workers := flag.Int("workers", runtime.NumCPU(), "parallel workers")
	timeScale := flag.Float64("timescale", 1.0, "scale per-plan time budgets")
	cpuprof := flag.String("cpuprofile", "", "write cpu profile")
	flag.Parse()
	if *cpuprof != "" {
		f, _ := os.Create(*cpuprof)
		_ = pprof.StartCPUProfile(f)
		defer pprof.StopCPUProfile()
	}

	debug.SetGCPercent(1000)
	if *replay != "" {
		os.Exit(doReplay(*replay))
	}
	switch *prop {
	case "C01", "C02", "C03", "C06", "C07":
	default:
		fmt.Fprintln(os.Stderr, "gpbftmc: -prop must be one of C01 C02 C03 C06 C07")
		os.Exit(2)
	}
	chk := vcommon.NewCheck(*prop, "model_checking")
	thorough := vcommon.Thorough()
	var totalStates, totalTrans, totalExec, totalPruned, totalDiverged, totalProbes, totalForged int64
	exhaustive := true
	var perPlan []map[string]any
	outcomes := map[string]struct{}{}
	for _, pl := range plans(*prop, thorough, vcommon.Seed()) {
		if *only != "" && pl.sc.Name != *only {
			continue
		}
		K := pl.K
		if *kOverride >= 0 {
			K = *kOverride
		}
		w := newWorld(pl.sc)
		budget := time.Duration(float64(pl.time) * *timeScale)
		e := newExplorer(w, pl.mode, *workers, time.Now().Add(budget))
		t0 := time.Now()
		done := e.Run(K)
		el := time.Since(t0)
		if done < K && len(e.found) == 0 {
			exhaustive = false
		}
		totalStates += e.st.states.Load()
		totalTrans += e.st.transitions.Load()
		totalExec += e.st.executions.Load()
		totalPruned += e.st.pruned.Load()
		totalDiverged += e.st.diverged.Load()
		totalProbes += e.st.probes.Load()
		totalForged += e.st.forged.Load()
		for o := range e.outcomes {
			outcomes[pl.sc.Name+"|"+o] = struct{}{}
			chk.Distinct(pl.sc.Name + "|" + o)
		}
		ends := map[string]int64{}
		for k, v := range e.ends {
			ends[k] = v
		}
		perPlan = append(perPlan, map[string]any{
			"scenario": pl.sc.String(), "mode": pl.mode.Name, "bound_requested": K, "bound_completed": done,
			"executions": e.st.executions.Load(), "states": e.st.states.Load(), "transitions": e.st.transitions.Load(),
			"forgery_probes": e.st.probes.Load(), "pruned_revisits": e.st.pruned.Load(), "replay_divergences": e.st.diverged.Load(), "end_reasons": ends,
			"distinct_outcomes": len(e.outcomes), "wall_s": el.Seconds(), "timed_out": e.timedOut.Load(),
		})
		fmt.Printf("%s %-18s %-17s K=%d/%d exec=%d states=%d trans=%d pruned=%d div=%d outcomes=%d ends=%v %.1fs\n",
			*prop, pl.sc.Name, pl.mode.Name, done, K, e.st.executions.Load(), e.st.states.Load(), e.st.transitions.Load(),
			e.st.pruned.Load(), e.st.diverged.Load(), len(e.outcomes), ends, el.Seconds())
		for _, smp := range e.sample {
			chk.Sample(map[string]any{"scenario": pl.sc.Name, "mode": pl.mode.Name, "trace": smp})
		}
		// confirm and report violations
		fps := make([]string, 0, len(e.found))
		for fp := range e.found {
			fps = append(fps, fp)
		}
		sort.Strings(fps)
		for _, fp := range fps {
			f := e.found[fp]
			ok, msgs := confirm(w, f)
			if !ok {
				fmt.Printf("UNSTABLE (not reported): %s %s: %s\n", f.f.prop, f.f.fp, f.f.what)
				chk.Add("unstable_failures", 1)
				continue
			}
			chk.Violation(f.f.fp, f.f.what+" [scenario "+pl.sc.Name+", mode "+pl.mode.Name+", trace "+strings.Join(devsOnly(f.trace), " ")+"]",
				replayFile{Scenario: pl.sc.Name, Mode: f.mode, Trace: f.trace, Messages: msgs, Failure: f.f.fp})
		}
	}
	chk.Set("states", totalStates)
	chk.Set("transitions", totalTrans)
	chk.Set("traces_validated_against_impl", totalExec)
	chk.Set("evaluations", totalExec)
	chk.Set("pruned_revisits", totalPruned)
	chk.Set("replay_divergences", totalDiverged)
	chk.Set("forgery_probes", totalProbes)
	chk.Set("forgeries_accepted_by_a_validator", totalForged)
	chk.Set("exhaustive", exhaustive)
	chk.Set("plans", perPlan)
	chk.Set("rule", "every execution of N real gpbft.Participant objects with <=K deviations (delay/hold/drop/duplicate/early timer/Byzantine message) from the synchronous schedule, K iterated 0..bound, revisits of a canonical global state pruned; an outcome is the vector of per-participant decisions plus the end reason; distinct_nontrivial counts distinct (scenario,outcome) pairs")
	chk.Assume("fake signing backend (sim/signing.FakeBackend); N<=4 participants, <=1 Byzantine identity; rounds bounded per scenario")
	chk.Assume("state-key abstraction of DESIGN §2.3: validation cache excluded (C05), justifications abstracted to (phase,round,value)")
	if *cpuprof != "" {
		pprof.StopCPUProfile()
	}
	chk.Finish()
}

func devsOnly(trace []string) []string {
	var out []string
	for i, l := range trace {
		if isDeviation(l) {
			out = append(out, fmt.Sprintf("@%d:%s", i, l))
		}
	}
	return out
}

// confirm replays the failing trace 5 times on fresh systems; the failure must reproduce every time.
func confirm(w *world, f found) (bool, string) {
	msgs := ""
	for i := 0; i < 5; i++ {
		fs, m, err := replayTrace(w, f.mode, f.trace)
		if err != nil {
			return false, ""
		}
		hit := false
		for _, x := range fs {
			if x.prop == f.f.prop && x.fp == f.f.fp {
				hit = true
			}
		}
		if !hit {
			return false, ""
		}
		msgs = m
	}
	return true, msgs
}

func doReplay(path string) int {
	raw, err := os.ReadFile(path)
	if err != nil {
		fmt.Fprintln(os.Stderr, err)
		return 2
	}
	var doc struct {
		Property string     `json:"property"`
		Replay   replayFile `json:"replay"`
	}
	if err := json.Unmarshal(raw, &doc); err != nil {
		fmt.Fprintln(os.Stderr, err)
		return 2
	}
	sc := scenarioByName(doc.Replay.Scenario)
	if sc == nil {
		fmt.Fprintln(os.Stderr, "unknown scenario", doc.Replay.Scenario)
		return 2
	}
	w := newWorld(sc)
	fs, msgs, err := replayTrace(w, doc.Replay.Mode, doc.Replay.Trace)
	if err != nil {
		fmt.Fprintln(os.Stderr, "replay diverged:", err)
		return 2
	}
	fmt.Print(msgs)
	fmt.Println("trace:", strings.Join(doc.Replay.Trace, " "))
	rc := 0
	for _, f := range fs {
		if f.prop == doc.Property {
			fmt.Printf("VIOLATION property=%s replay=%s\n  %s: %s\n", f.prop, path, f.fp, f.what)
			rc = 1
		}
	}
	if rc == 0 {
		fmt.Println("no violation on this tree")
	}
	return rc
}
