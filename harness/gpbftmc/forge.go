package main

// Forged Byzantine messages: what the Byzantine participant can put on the wire WITHOUT being able to make it
// valid — a vote in somebody else's name, its own vote with a certificate that is junk / under-powered / for
// another value, a replay of an observed vote under another sender id.  A sound validator rejects all of
// them, every time; so they are not part of the deviation alphabet.  Instead every expanded state PROBES the
// target's real validator with each of them (twice, through the one-shot and through the two-stage wire path,
// no ReceiveMessage): only if a presentation is accepted does the forgery become a (free) Byzantine action
// 'F' that the exploration follows to its consequences.  On a tree whose validator is sound the probes change
// nothing; on a tree with a validation hole the safety monitors see what the hole is worth.

import (
	"crypto/sha256"
	"fmt"
	"os"
	"strconv"
	"strings"
	"sync"

	"github.com/filecoin-project/go-bitfield"
	rlepluslazy "github.com/filecoin-project/go-bitfield/rle"
	"github.com/filecoin-project/go-f3/gpbft"
	"github.com/filecoin-project/go-f3/pmsg"
)

var forgeValues = []string{"=x", "=f"}

// probeSeen remembers probe verdicts across executions: key -> routes on which the forgery was accepted.
var probeSeen = struct {
	sh [64]struct {
		sync.Mutex
		m map[string]string
	}
}{}

func init() {
	for i := range probeSeen.sh {
		probeSeen.sh[i].m = map[string]string{}
	}
}

func probeShard(key string) int {
	var h uint32 = 2166136261
	for i := 0; i < len(key); i++ {
		h = (h ^ uint32(key[i])) * 16777619
	}
	return int(h % 64)
}

func probeLookup(key string) (string, bool) {
	sh := &probeSeen.sh[probeShard(key)]
	sh.Lock()
	defer sh.Unlock()
	v, ok := sh.m[key]
	return v, ok
}

func probeStore(key, routes string) {
	sh := &probeSeen.sh[probeShard(key)]
	sh.Lock()
	sh.m[key] = routes
	sh.Unlock()
}

// justFor returns the (phase, round) of the justification a vote of (phase, round) must carry.
func justFor(ph gpbft.Phase, round uint64) (gpbft.Phase, uint64, bool) {
	switch ph {
	case gpbft.COMMIT_PHASE:
		return gpbft.PREPARE_PHASE, round, true
	case gpbft.DECIDE_PHASE:
		return gpbft.COMMIT_PHASE, round, true // round of the COMMIT quorum; the DECIDE itself is round 0
	case gpbft.PREPARE_PHASE, gpbft.CONVERGE_PHASE:
		if round > 0 {
			return gpbft.PREPARE_PHASE, round - 1, true
		}
	}
	return 0, 0, false
}

// forgeMenu lists the forgery specs against target (a participant index) in its current instance.
//
//	S.<inst>.<phase>.<round>.<val>.<sender>   vote in <sender>'s name, signed with B's key
//	J.<inst>.<phase>.<round>.<val>            B's own vote, certificate with a junk aggregate over all members
//	W.<inst>.<phase>.<round>.<val>            B's own vote, certificate genuinely signed by too few members
//	M.<inst>.<phase>.<round>.<val>.<jval>     B's own vote, observed certificate of the right step for another value
//	R.<msg>.<sender>                          observed message <msg> replayed under another sender id
//	D.<inst>.<phase>.<round>.<val>            B's own DECIDE stamped with the non-zero round of the genuine COMMIT quorum it carries
func (s *System) forgeMenu(target int) []string {
	if s.w.sc.Byz < 0 || s.hosts[target] == nil || s.hosts[target].finished {
		return nil
	}
	pr := s.parts[target].Progress()
	inst := pr.ID
	if int(inst) >= s.w.sc.Instances || s.instanceBase(inst) == nil {
		return nil
	}
	var out []string
	type step struct {
		ph gpbft.Phase
		r  uint64
	}
	steps := []step{{gpbft.COMMIT_PHASE, pr.Round}, {gpbft.DECIDE_PHASE, pr.Round}}
	if pr.Round+1 <= s.w.sc.MaxRound {
		steps = append(steps, step{gpbft.PREPARE_PHASE, pr.Round + 1}, step{gpbft.CONVERGE_PHASE, pr.Round + 1})
	}
	for _, st := range steps {
		for _, v := range forgeValues {
			base := fmt.Sprintf("%d.%d.%d.%s", inst, st.ph, st.r, v)
			for i := range s.w.sc.Powers {
				if i != target && i != s.w.sc.Byz && st.ph != gpbft.PREPARE_PHASE && st.ph != gpbft.CONVERGE_PHASE {
					out = append(out, "S."+base+"."+strconv.Itoa(i))
				}
			}
			out = append(out, "J."+base, "W."+base)

			jp, jr, _ := justFor(st.ph, st.r)
			seen := map[string]bool{}
			for _, r := range s.msgs {
				j := r.msg.Justification
				if r.byz || j == nil || r.msg.Vote.Instance != inst || j.Vote.Phase != jp || j.Vote.Round != jr || j.Vote.Value.IsZero() {
					continue
				}
				jv := chainStr(j.Vote.Value)
				if !seen[jv] {
					seen[jv] = true
					out = append(out, "M."+base+"."+strconv.Itoa(r.id))
				}
			}
		}
	}
	// a DECIDE stamped with the non-zero round of the genuine COMMIT quorum it carries, for every value and round for
	// which such a quorum can be assembled from observed votes
	for r := uint64(1); r <= pr.Round; r++ {
		for _, v := range []string{"=a", "=aa", "=f", "="} {
			if _, _, ok := s.justifiable(inst, jspec{gpbft.COMMIT_PHASE, r, v}); ok {
				out = append(out, fmt.Sprintf("D.%d.%d.%d.%s", inst, gpbft.DECIDE_PHASE, r, v))
			}
		}
	}
	for _, r := range s.msgs {
		m := r.msg
		if r.byz || m.Vote.Instance != inst || (m.Vote.Phase != gpbft.DECIDE_PHASE && m.Vote.Phase != gpbft.COMMIT_PHASE) {
			continue
		}
		for i := range s.w.sc.Powers {
			if actor(i) != m.Sender && i != target {
				out = append(out, fmt.Sprintf("R.%d.%d", r.id, i))
			}
		}
	}
	return out
}

func (s *System) forgeBuild(spec string) (*gpbft.GMessage, error) {
	f := strings.Split(spec, ".")
	if f[0] == "R" {
		if len(f) != 3 {
			return nil, fmt.Errorf("bad forge spec %q", spec)
		}
		id, e1 := strconv.Atoi(f[1])
		to, e2 := strconv.Atoi(f[2])
		if e1 != nil || e2 != nil || id < 0 || id >= len(s.msgs) || to < 0 || to >= s.w.sc.N() {
			return nil, fmt.Errorf("bad forge spec %q", spec)
		}
		c := *s.msgs[id].msg
		c.Sender = actor(to)
		return &c, nil
	}
	if len(f) < 5 {
		return nil, fmt.Errorf("bad forge spec %q", spec)
	}
	inst, e1 := strconv.ParseUint(f[1], 10, 64)
	phn, e2 := strconv.ParseUint(f[2], 10, 8)
	round, e3 := strconv.ParseUint(f[3], 10, 64)
	if e1 != nil || e2 != nil || e3 != nil {
		return nil, fmt.Errorf("bad forge spec %q", spec)
	}
	ph := gpbft.Phase(phn)
	val, err := s.byzValue(inst, f[4])
	if err != nil {
		return nil, err
	}
	voteRound := round
	if ph == gpbft.DECIDE_PHASE {
		voteRound = 0
	}
	payload := gpbft.Payload{Instance: inst, Round: voteRound, Phase: ph, SupplementalData: s.w.supp, Value: val}
	bpk := s.w.pubkeys[actor(s.w.sc.Byz)]
	sig, err := s.backend.Sign(ctx, bpk, payload.MarshalForSigning(networkName))
	if err != nil {
		return nil, err
	}
	m := &gpbft.GMessage{Sender: actor(s.w.sc.Byz), Vote: payload, Signature: sig}
	if ph == gpbft.CONVERGE_PHASE {
		beacon := []byte(s.w.sc.Beacon + strconv.FormatUint(inst, 10))
		if m.Ticket, err = s.backend.Sign(ctx, bpk, gpbft.VerifVRFInput(beacon, inst, round, networkName)); err != nil {
			return nil, err
		}
	}
	jp, jr, _ := justFor(ph, round)
	jpayload := gpbft.Payload{Instance: inst, Round: jr, Phase: jp, SupplementalData: s.w.supp, Value: val}
	pt := s.w.newPowerTable()
	allSigners := func() bitfield.BitField {
		u := make([]uint64, len(pt.Entries))
		for i := range u {
			u[i] = uint64(i)
		}
		ri, _ := rlepluslazy.RunsFromSlice(u)
		bf, _ := bitfield.NewFromIter(ri)
		return bf
	}
	junk := func() *gpbft.Justification {
		return &gpbft.Justification{Vote: jpayload, Signers: allSigners(), Signature: []byte("junk-aggregate-" + spec)}
	}
	switch f[0] {
	case "D":
		// genuine COMMIT quorum of round jr for the value (only if one can be assembled), DECIDE stamped with round jr
		j, err := s.buildJustification(inst, jspec{jp, jr, f[4]})
		if err != nil {
			return nil, err
		}
		m.Vote.Round = jr
		if m.Signature, err = s.backend.Sign(ctx, bpk, m.Vote.MarshalForSigning(networkName)); err != nil {
			return nil, err
		}
		m.Justification = j
	case "S":
		if len(f) != 6 {
			return nil, fmt.Errorf("bad forge spec %q", spec)
		}
		who, err := strconv.Atoi(f[5])
		if err != nil || who < 0 || who >= s.w.sc.N() {
			return nil, fmt.Errorf("bad forge spec %q", spec)
		}
		m.Sender = actor(who)
		if j, err := s.buildJustification(inst, jspec{jp, jr, f[4]}); err == nil {
			m.Justification = j
		} else {
			m.Justification = junk()
		}
	case "J":
		m.Justification = junk()
	case "W":
		// everybody who really signed jpayload, plus B — as long as that is NOT a strong quorum
		signers := map[int]bool{s.w.sc.Byz: true}
		for _, r := range s.msgs {
			v := r.msg.Vote
			if !r.byz && v.Instance == inst && v.Phase == jp && v.Round == jr && v.Value.Eq(val) {
				signers[r.from] = true
			}
		}
		var total int64
		var idx []int
		byIdx := map[int][]byte{}
		toSign := jpayload.MarshalForSigning(networkName)
		for i := range signers {
			p, pk := pt.Get(actor(i))
			if p == 0 {
				continue
			}
			total += p
			sg, err := s.backend.Sign(ctx, pk, toSign)
			if err != nil {
				return nil, err
			}
			k := pt.Lookup[actor(i)]
			idx = append(idx, k)
			byIdx[k] = sg
		}
		if len(idx) == 0 || gpbft.IsStrongQuorum(total, pt.ScaledTotal) {
			return nil, fmt.Errorf("no weak certificate for %q", spec)
		}
		sortInts(idx)
		sigs := make([][]byte, len(idx))
		u := make([]uint64, len(idx))
		for n, k := range idx {
			sigs[n], u[n] = byIdx[k], uint64(k)
		}
		agg, err := s.aggregate(pt.Entries.PublicKeys())
		if err != nil {
			return nil, err
		}
		as, err := agg.Aggregate(idx, sigs)
		if err != nil {
			return nil, err
		}
		ri, _ := rlepluslazy.RunsFromSlice(u)
		bf, _ := bitfield.NewFromIter(ri)
		m.Justification = &gpbft.Justification{Vote: jpayload, Signers: bf, Signature: as}
	case "M":
		if len(f) != 6 {
			return nil, fmt.Errorf("bad forge spec %q", spec)
		}
		id, err := strconv.Atoi(f[5])
		if err != nil || id < 0 || id >= len(s.msgs) || s.msgs[id].msg.Justification == nil {
			return nil, fmt.Errorf("bad forge spec %q", spec)
		}
		j := *s.msgs[id].msg.Justification
		if j.Vote.Value.Eq(val) {
			return nil, fmt.Errorf("certificate is for the same value")
		}
		m.Justification = &j
	default:
		return nil, fmt.Errorf("bad forge spec %q", spec)
	}
	return m, nil
}

func sortInts(a []int) {
	for i := 1; i < len(a); i++ {
		for j := i; j > 0 && a[j] < a[j-1]; j-- {
			a[j], a[j-1] = a[j-1], a[j]
		}
	}
}

func cloneMsg(m *gpbft.GMessage) *gpbft.GMessage {
	c := *m
	if m.Justification != nil {
		j := *m.Justification
		c.Justification = &j
	}
	return &c
}

// validateVia runs one presentation of m at p through the chosen validation route: '1' one-shot (the chain is
// already known to the receiver, host.go completes the message before validating), '2' two-stage (the chain is
// not known yet: strip, validate partially, complete with the chain once known, validate fully).
func validateVia(p *gpbft.Participant, m *gpbft.GMessage, route byte) (gpbft.ValidatedMessage, error) {
	if route != '2' {
		return p.ValidateMessage(ctx, cloneMsg(m))
	}
	chain := m.Vote.Value
	pm, err := pmsg.VerifToPartial(cloneMsg(m))
	if err != nil {
		return nil, err
	}
	pv, err := p.PartiallyValidateMessage(ctx, pm)
	if err != nil {
		return nil, err
	}
	part := pv.PartialMessage()
	if !chain.IsZero() {
		part.Vote.Value = chain
	}
	pmsg.VerifInferJustificationVoteValue(part)
	return p.FullyValidateMessage(ctx, pv)
}

// specKey names the parts of a spec by content instead of by message index (indices depend on creation order)
// and says whether the target has already validated the observed message the forgery is derived from.
func (s *System) specKey(spec string, target int) string {
	f := strings.Split(spec, ".")
	switch {
	case f[0] == "R" && len(f) == 3:
		id, _ := strconv.Atoi(f[1])
		return fmt.Sprintf("R.%s.%s.%v", s.msgKey(id), f[2], s.validated[target][id])
	case f[0] == "M" && len(f) == 6:
		id, _ := strconv.Atoi(f[5])
		return fmt.Sprintf("%s.%s.%v", strings.Join(f[:5], "."), s.msgKey(id), s.validated[target][id])
	}
	return spec
}

// forgeDonor returns the index of the observed message a forgery derives from (-1 if none).
func (s *System) forgeDonor(spec string) int {
	f := strings.Split(spec, ".")
	var id int
	var err error
	switch {
	case f[0] == "R" && len(f) == 3:
		id, err = strconv.Atoi(f[1])
	case f[0] == "M" && len(f) == 6:
		id, err = strconv.Atoi(f[5])
	default:
		return -1
	}
	if err != nil || id < 0 || id >= len(s.msgs) {
		return -1
	}
	return id
}

// probeForgeries returns the forgeries against which the validator of some unfinished honest participant is
// not sound in the current state, as ready-to-explore actions.  A probe is identified by (scenario, target, the
// target's progress, the forgery by content, whether the target has validated the message it derives from): what
// a validator decides on; each is run once per run of the checker.
func (s *System) probeForgeries() []action {
	var out []action
	for _, t := range s.w.sc.Honest() {
		if s.hosts[t].finished {
			continue
		}
		pr := s.parts[t].Progress()
		// nothing a validator decides on has changed since the last probe of this execution: skip
		sig := [5]uint64{pr.ID, pr.Round, uint64(pr.Phase), uint64(len(s.msgs)), uint64(len(s.validated[t]))}
		if s.lastProbe == nil {
			s.lastProbe = map[int][5]uint64{}
		}
		if last, ok := s.lastProbe[t]; ok && last == sig {
			continue
		}
		s.lastProbe[t] = sig
		for _, spec := range s.forgeMenu(t) {
			key := fmt.Sprintf("%s|%d|%d.%d.%d|%s", s.w.sc.Name, t, pr.ID, pr.Round, pr.Phase, s.specKey(spec, t))
			routes, known := probeLookup(key)
			if !known {
				m, err := s.forgeBuild(spec)
				if err != nil {
					continue
				}
				for _, route := range []byte{'1', '2'} {
					s.probes++
					if d := s.forgeDonor(spec); d >= 0 && s.validated[t][d] {
						// the target has validated the genuine message the forgery derives from (by whichever route it
						// arrived): it sees it once more on this route (a rebroadcast), then the forgery
						_, _ = validateVia(s.parts[t], s.msgs[d].msg, route)
					}
					for n := 0; n < 2; n++ {
						if _, err := validateVia(s.parts[t], m, route); err == nil {
							routes += string(route)
							break
						}
					}
				}
				probeStore(key, routes)
				if routes != "" && os.Getenv("VERIF_DEBUG_FORGE") != "" {
					fmt.Fprintf(os.Stderr, "forgery accepted: %s routes=%s (%s)\n", key, routes, msgStr(m))
				}
			}
			// a forgery found acceptable in this class of target states is an action wherever the class recurs
			for i := 0; i < len(routes); i++ {
				out = append(out, action{kind: 'F', spec: string(routes[i]) + spec, to: t})
			}
		}
	}
	return out
}

func justSig(m *gpbft.GMessage) string {
	if m.Justification == nil {
		return "-"
	}
	h := sha256.Sum256(m.Justification.Signature)
	return fmt.Sprintf("%x", h[:6])
}
