// certexmc — C16: the real certificate-exchange server is queried with every (first, limit, power-table)
// request over every store content and everything it writes is compared with the exact store slice; the
// real poller is driven against a scripted (Byzantine) responder with every script up to depth 3.
package main

import (
	"bytes"
	"context"
	"flag"
	"fmt"
	"math"
	"strings"

	"github.com/filecoin-project/go-f3/certexchange"
	"github.com/filecoin-project/go-f3/certexchange/polling"
	"github.com/filecoin-project/go-f3/certs"
	"github.com/filecoin-project/go-f3/certstore"
	"github.com/filecoin-project/go-f3/gpbft"
	"github.com/filecoin-project/go-f3/internal/verif/vcommon"
	"github.com/filecoin-project/go-f3/internal/verif/vfix"
	"github.com/filecoin-project/go-f3/internal/verif/vnet"
	"github.com/ipfs/go-datastore"
	dssync "github.com/ipfs/go-datastore/sync"
)

var (
	bg   = context.Background()
	keys = vfix.NewKeys(16)
)

const nn = gpbft.NetworkName("verif-c16")

func table0() gpbft.PowerEntries {
	return vfix.Canon(gpbft.PowerEntries{
		keys.Entry(1, gpbft.NewStoragePower(50), 1), keys.Entry(2, gpbft.NewStoragePower(40), 2), keys.Entry(3, gpbft.NewStoragePower(30), 3),
	})
}

// honestChain: n certificates from instance first over evolving tables.
func honestChain(first uint64, n int) ([]*certs.FinalityCertificate, []gpbft.PowerEntries) {
	tables := []gpbft.PowerEntries{table0()}
	var out []*certs.FinalityCertificate
	head := vfix.TipSet("gen", 0, vfix.TableCID(tables[0]))
	for i := 0; i < n; i++ {
		cur := tables[i]
		next := vfix.CloneEntries(cur)
		switch i % 3 {
		case 0:
			next[0].Power = gpbft.NewStoragePower(next[0].Power.Int64() + 3)
		case 1:
			next = append(next, keys.Entry(uint64(10+i), gpbft.NewStoragePower(15), 5+i%5))
		}
		next = vfix.Canon(next)
		inst := first + uint64(i)
		chain := &gpbft.ECChain{TipSets: []*gpbft.TipSet{head, vfix.TipSet(fmt.Sprintf("i%d", inst), head.Epoch+1, vfix.TableCID(cur))}}
		c := keys.Cert(nn, inst, chain, cur, next, vfix.MinimalQuorum(cur))
		out = append(out, c)
		tables = append(tables, next)
		head = chain.Head()
	}
	return out, tables
}

func newStore(first uint64, cs []*certs.FinalityCertificate) *certstore.Store {
	st, err := certstore.CreateStore(bg, dssync.MutexWrap(datastore.NewMapDatastore()), first, table0())
	if err != nil {
		panic(err)
	}
	for _, c := range cs {
		if err := st.Put(bg, c); err != nil {
			panic(err)
		}
	}
	return st
}

func blob(c *certs.FinalityCertificate) []byte {
	var b bytes.Buffer
	if err := c.MarshalCBOR(&b); err != nil {
		panic(err)
	}
	return b.Bytes()
}

// ---- server ---------------------------------------------------------------------------------------------------

func runServer(chk *vcommon.Check, thorough bool) {
	_, hs := vnet.Net(2)
	client, serverHost := hs[0], hs[1]
	maxLen := 5
	if thorough {
		maxLen = 7
	}
	n := 0
	for _, first := range []uint64{0, 5} {
		chain, tables := honestChain(first, maxLen)
		for L := 0; L <= maxLen; L++ {
			st := newStore(first, chain[:L])
			srv := &certexchange.Server{NetworkName: nn, Host: serverHost, Store: st}
			// the context given to Start is a start-up context: for every other store it ends as soon as Start returns,
			// which must not stop the started server
			startCtx, endStart := context.WithCancel(bg)
			if err := srv.Start(startCtx); err != nil {
				panic(err)
			}
			if L%2 == 1 {
				endStart()
			}
			defer endStart()
			pending := first + uint64(L)
			if L == 0 {
				pending = 0 // an empty store advertises 0
			}
			firsts := []uint64{math.MaxUint64, math.MaxUint64 - 1}
			for f := uint64(0); f <= first+uint64(L)+2; f++ {
				firsts = append(firsts, f)
			}
			for _, f := range firsts {
				for _, limit := range []uint64{0, 1, 2, uint64(L), 256, 257, math.MaxUint64} {
					for _, pt := range []bool{false, true} {
						n++
						req := certexchange.Request{FirstInstance: f, Limit: limit, IncludePowerTable: pt}
						rep := map[string]any{"kind": "server", "first_instance_of_store": first, "stored": L, "request": fmt.Sprintf("%+v", req)}
						where := fmt.Sprintf("store [%d,%d) request %+v", first, first+uint64(L), req)
						hdr, got, blobs, err := vnet.RawRequest(bg, client, nn, serverHost.ID(), req)
						if err != nil {
							if f < first && pt && hdr == nil {
								continue // power table before the first instance cannot be served: the server resets
							}
							chk.Violation("server-request-failed", fmt.Sprintf("%s: %v", where, err), rep)
							return
						}
						if hdr.PendingInstance != pending {
							chk.Violation("server-wrong-pending-instance", fmt.Sprintf("%s: advertised pending instance %d, store's next instance is %d", where, hdr.PendingInstance, pending), rep)
							return
						}
						// expected slice
						var want []*certs.FinalityCertificate
						lim := limit
						if lim > 256 {
							lim = 256
						}
						for i := f; i >= first && i < first+uint64(L) && uint64(len(want)) < lim; i++ {
							want = append(want, chain[i-first])
							if i == math.MaxUint64 {
								break
							}
						}
						if uint64(len(got)) > limit {
							chk.Violation("server-serves-more-than-requested", fmt.Sprintf("%s: %d certificates on the wire, limit %d", where, len(got), limit), rep)
							return
						}
						for i, c := range got {
							if c.GPBFTInstance >= hdr.PendingInstance {
								chk.Violation("server-serves-at-or-beyond-pending", fmt.Sprintf("%s: served instance %d, advertised pending %d", where, c.GPBFTInstance, hdr.PendingInstance), rep)
								return
							}
							if i >= len(want) || !bytes.Equal(blobs[i], blob(want[i])) {
								chk.Violation("server-response-not-store-slice", fmt.Sprintf("%s: certificate #%d on the wire is not the stored certificate of instance %d", where, i, f+uint64(i)), rep)
								return
							}
						}
						if len(got) != len(want) {
							chk.Violation("server-response-not-store-slice", fmt.Sprintf("%s: %d certificates served, the store slice has %d", where, len(got), len(want)), rep)
							return
						}
						if pt && hdr.PendingInstance >= f && f >= first {
							if !hdr.PowerTable.Equal(tables[f-first]) {
								chk.Violation("server-wrong-power-table", fmt.Sprintf("%s: power table in the response is not the table of instance %d", where, f), rep)
								return
							}
						} else if len(hdr.PowerTable) != 0 && !(pt && hdr.PendingInstance >= f) {
							chk.Violation("server-unrequested-power-table", where, rep)
							return
						}
						// through the production client
						c := certexchange.Client{Host: client, NetworkName: nn}
						h2, ch, err := c.Request(bg, serverHost.ID(), &req)
						if err != nil {
							chk.Violation("client-request-failed", fmt.Sprintf("%s: %v", where, err), rep)
							return
						}
						var viaClient []*certs.FinalityCertificate
						for x := range ch {
							viaClient = append(viaClient, x)
						}
						if h2.PendingInstance != pending || len(viaClient) != len(want) {
							chk.Violation("client-result-not-store-slice", fmt.Sprintf("%s: client got pending=%d and %d certificates, want %d / %d", where, h2.PendingInstance, len(viaClient), pending, len(want)), rep)
							return
						}
						for i := range want {
							if !bytes.Equal(blob(viaClient[i]), blob(want[i])) {
								chk.Violation("client-result-not-store-slice", fmt.Sprintf("%s: client certificate #%d differs from the stored one", where, i), rep)
								return
							}
						}
						chk.Distinct(fmt.Sprintf("srv/%d/%d/%d/%d/%v", first, L, f, limit, pt))
					}
				}
			}
			_ = srv.Stop(bg)
		}
	}
	// the store gains a certificate in the middle of a request (while the power table is being loaded): nothing at or
	// beyond the pending instance that the header already advertised may be served
	for _, L := range []int{2, 4} {
		chain, _ := honestChain(0, L+1)
		for f := uint64(0); f < uint64(L); f++ {
			n++
			inner := dssync.MutexWrap(datastore.NewMapDatastore())
			hook := &hookDS{Datastore: inner}
			st, err := certstore.CreateStore(bg, hook, 0, table0())
			if err != nil {
				panic(err)
			}
			for _, c := range chain[:L] {
				if err := st.Put(bg, c); err != nil {
					panic(err)
				}
			}
			fired := false
			hook.onGet = func(k datastore.Key) {
				if !fired && strings.Contains(k.String(), "/power/") {
					fired = true
					if err := st.Put(bg, chain[L]); err != nil {
						panic(err)
					}
				}
			}
			srv := &certexchange.Server{NetworkName: nn, Host: serverHost, Store: st}
			if err := srv.Start(bg); err != nil {
				panic(err)
			}
			req := certexchange.Request{FirstInstance: f, Limit: 256, IncludePowerTable: true}
			hdr, got, _, err := vnet.RawRequest(bg, client, nn, serverHost.ID(), req)
			_ = srv.Stop(bg)
			rep := map[string]any{"kind": "server-concurrent-put", "stored": L, "request": fmt.Sprintf("%+v", req)}
			if err != nil {
				chk.Violation("server-request-failed", fmt.Sprintf("store of %d growing during request %+v: %v", L, req, err), rep)
				return
			}
			for _, c := range got {
				if c.GPBFTInstance >= hdr.PendingInstance {
					chk.Violation("server-serves-at-or-beyond-pending", fmt.Sprintf("store of %d certificates gains one while request %+v is served (fired=%v): instance %d served although the header advertises pending %d", L, req, fired, c.GPBFTInstance, hdr.PendingInstance), rep)
					return
				}
			}
			chk.Distinct(fmt.Sprintf("srvgrow/%d/%d/%v", L, f, fired))
		}
	}
	chk.Add("evaluations", int64(n))
	chk.Set("server_requests", n)
	chk.Sample(map[string]any{"kind": "server", "store": "[5,9)", "request": "{FirstInstance:6 Limit:2 IncludePowerTable:true}"})
}

// hookDS lets the harness act in the middle of a store operation (on a datastore read).
type hookDS struct {
	datastore.Datastore
	onGet func(datastore.Key)
}

func (h *hookDS) Get(ctx context.Context, k datastore.Key) ([]byte, error) {
	if h.onGet != nil {
		h.onGet(k)
	}
	return h.Datastore.Get(ctx, k)
}

// ---- poller -----------------------------------------------------------------------------------------------------

var behaviours = []string{"honest", "forged-signature", "wrong-delta", "reordered", "duplicated", "gap", "truncated", "over-long", "pending-too-high", "pending-too-low", "reset", "one-at-a-time"}

func runPoller(chk *vcommon.Check, thorough bool) {
	_, hs := vnet.Net(2)
	clientHost, peerHost := hs[0], hs[1]
	const total = 6
	chain, _ := honestChain(0, total)
	depth := 2
	if thorough {
		depth = 3
	}
	var scripts [][]string
	var rec func(cur []string)
	rec = func(cur []string) {
		if len(cur) > 0 {
			scripts = append(scripts, append([]string{}, cur...))
		}
		if len(cur) == depth {
			return
		}
		for _, b := range behaviours {
			rec(append(cur, b))
		}
	}
	rec(nil)
	n := 0
	type holding struct{ have, gain, during int }
	// certificates the client holds when the poller is created + gained locally before the poll + gained locally
	// (the node's own consensus finalizes them) while the first request is in flight
	for _, hg := range []holding{{0, 0, 0}, {2, 0, 0}, {0, 3, 0}, {1, 2, 0}, {0, 0, 1}, {0, 0, 2}, {1, 0, 3}, {1, 1, 2}} {
		have := hg.have + hg.gain
		for _, peerHasInit := range []int{0, 1, 3, total} {
			for _, script := range scripts {
				peerHas := peerHasInit
				if hg.gain > 0 && len(script) > 1 {
					continue // local gains are combined with single-behaviour scripts only
				}
				if hg.during > 0 && (len(script) > 1 || (script[0] != "honest" && script[0] != "one-at-a-time") || peerHasInit < have+hg.during) {
					continue // gains during the request: honest peers that hold at least as much
				}
				n++
				st := newStore(0, chain[:hg.have])
				step := 0
				// validSent: the longest prefix of certificates (by instance, from `have`) the peer has sent validly so far
				resp := &vnet.Responder{Host: peerHost, NN: nn}
				type sentInfo struct {
					validUpTo uint64 // exclusive: instances [have, validUpTo) were sent as valid, in-sequence certificates
					illegal   bool
				}
				info := &sentInfo{validUpTo: uint64(have)}
				resp.Answer = func(req certexchange.Request) vnet.Reply {
					b := "honest"
					if step < len(script) {
						b = script[step]
					}
					step++
					rep := vnet.Reply{Pending: uint64(peerHas)}
					var certsOut []*certs.FinalityCertificate
					for i := req.FirstInstance; i < uint64(peerHas) && uint64(len(certsOut)) < req.Limit && uint64(len(certsOut)) < 256; i++ {
						certsOut = append(certsOut, chain[i])
					}
					clone := func(c *certs.FinalityCertificate) *certs.FinalityCertificate { x := *c; return &x }
					// Which prefix of this response is valid and in sequence (what a correct poller may store)?
					validPrefix := len(certsOut)
					illegalAfter := false
					switch b {
					case "forged-signature":
						if len(certsOut) > 0 {
							k := len(certsOut) - 1
							x := clone(certsOut[k])
							x.Signature = append([]byte{}, x.Signature...)
							x.Signature[0] ^= 1
							certsOut[k] = x
							validPrefix, illegalAfter = k, true
						}
					case "wrong-delta":
						if len(certsOut) > 0 {
							k := 0
							x := clone(certsOut[k])
							x.PowerTableDelta = append(certs.PowerTableDiff{}, x.PowerTableDelta...)
							x.PowerTableDelta = append(x.PowerTableDelta, certs.PowerTableDelta{ParticipantID: 999, PowerDelta: gpbft.NewStoragePower(1), SigningKey: keys.Pub(9)})
							certsOut[k] = x
							validPrefix, illegalAfter = 0, true
						}
					case "reordered":
						if len(certsOut) > 1 {
							certsOut[0], certsOut[1] = certsOut[1], certsOut[0]
							validPrefix = 0
						}
					case "duplicated":
						if len(certsOut) > 0 {
							certsOut = append([]*certs.FinalityCertificate{certsOut[0], certsOut[0]}, certsOut[1:]...)
							validPrefix = 1
						}
					case "gap":
						if len(certsOut) > 1 {
							certsOut = append([]*certs.FinalityCertificate{certsOut[0]}, certsOut[2:]...)
							validPrefix = 1
						}
					case "truncated":
						if len(certsOut) > 0 {
							rep.CutLast = 20
							validPrefix = len(certsOut) - 1
						}
					case "over-long":
						// more certificates than the store of the peer "has": repeat the last one beyond pending
						if len(certsOut) > 0 && int(req.FirstInstance)+len(certsOut) < total {
							certsOut = append(certsOut, chain[int(req.FirstInstance)+len(certsOut)])
							validPrefix = len(certsOut) // they are genuine certificates, merely beyond the advertised pending
						}
					case "pending-too-high":
						rep.Pending = uint64(peerHas) + 5
					case "pending-too-low":
						if peerHas > 0 {
							rep.Pending = uint64(peerHas) - 1
						}
					case "reset":
						rep.Reset = true
						validPrefix = 0
					case "one-at-a-time":
						if len(certsOut) > 1 {
							certsOut = certsOut[:1]
							validPrefix = 1
						}
					}
					if !rep.Reset && req.FirstInstance == info.validUpTo && !info.illegal {
						info.validUpTo += uint64(validPrefix)
						if illegalAfter {
							info.illegal = true
						}
					}
					for _, c := range certsOut {
						rep.Blobs = append(rep.Blobs, blob(c))
					}
					if step == 1 && hg.during > 0 {
						// while this request is in flight the node's own consensus finalizes the next instances
						rep.Before = func() {
							for _, c := range chain[have : have+hg.during] {
								if err := st.Put(bg, c); err != nil {
									panic(err)
								}
							}
						}
						if v := uint64(have + hg.during); info.validUpTo < v {
							info.validUpTo = v
						}
					}
					return rep
				}
				resp.Start()
				client := &certexchange.Client{Host: clientHost, NetworkName: nn}
				p, err := polling.NewPoller(bg, client, st, keys)
				if err != nil {
					panic(err)
				}
				// the store advances locally (the node's own consensus) between the creation of the poller and the poll
				for _, c := range chain[hg.have:have] {
					if err := st.Put(bg, c); err != nil {
						panic(err)
					}
				}
				before := uint64(have)
				res, err := p.Poll(bg, peerHost.ID())
				rep := map[string]any{"kind": "poller", "client_has": hg.have, "gained_locally": hg.gain, "gained_locally_during_request": hg.during, "peer_has": peerHas, "script": script}
				where := fmt.Sprintf("client holds %d (+%d gained locally before the poll, +%d while the first request is in flight), peer holds %d, script %v", hg.have, hg.gain, hg.during, peerHas, script)
				if err != nil {
					chk.Violation("poll-internal-error", fmt.Sprintf("%s: Poll returned error %v", where, err), rep)
					return
				}
				// store content = previous + a prefix of genuinely valid certificates, never more than what was validly sent
				latest := uint64(have)
				if l := st.Latest(); l != nil {
					latest = l.GPBFTInstance + 1
				}
				if latest < before {
					chk.Violation("poller-store-went-backwards", where, rep)
					return
				}
				for i := uint64(0); i < latest; i++ {
					c, err := st.Get(bg, i)
					if err != nil || !bytes.Equal(blob(c), blob(chain[i])) {
						chk.Violation("poller-stored-unverified-certificate", fmt.Sprintf("%s: store holds at instance %d something that is not the genuine certificate (%v)", where, i, err), rep)
						return
					}
				}
				if latest > info.validUpTo {
					chk.Violation("poller-stored-beyond-valid-prefix", fmt.Sprintf("%s: store advanced to %d but the peer only sent a valid in-sequence prefix up to %d", where, latest, info.validUpTo), rep)
					return
				}
				// ... and never less, unless the peer reset a stream (a reset may destroy what was sent just before it)
				resets := false
				for _, b := range script {
					if b == "truncated" || b == "reset" {
						resets = true
					}
				}
				if latest < info.validUpTo && !resets {
					chk.Violation("poller-drops-valid-prefix", fmt.Sprintf("%s: the peer sent a valid in-sequence prefix up to %d but the store only advanced to %d", where, info.validUpTo, latest), rep)
					return
				}
				if p.NextInstance != latest {
					chk.Violation("poller-next-instance-not-store-advance", fmt.Sprintf("%s: poller NextInstance=%d but the store's next instance is %d", where, p.NextInstance, latest), rep)
					return
				}
				if res.NewCertificates != latest-before-uint64(hg.during) {
					chk.Violation("poller-miscounts-new-certificates", fmt.Sprintf("%s: reported %d new certificates, store advanced by %d of which %d locally", where, res.NewCertificates, latest-before, hg.during), rep)
					return
				}
				// classification (conservative subset of the statement)
				allHonest := true
				for _, b := range script {
					if b != "honest" && b != "one-at-a-time" {
						allHonest = false
					}
				}
				switch {
				case info.illegal && res.Status != polling.PollIllegal && latest == info.validUpTo:
					chk.Violation("poller-misclassifies-illegal-peer", fmt.Sprintf("%s: the peer sent an invalid certificate but was classified %v", where, res.Status), rep)
					return
				case allHonest && peerHas >= have && res.Status != polling.PollHit:
					chk.Violation("poller-misclassifies-honest-peer", fmt.Sprintf("%s: honest peer that is not behind classified %v (latest %d)", where, res.Status, latest), rep)
					return
				case allHonest && peerHas >= have && latest != uint64(peerHas):
					chk.Violation("poller-does-not-catch-up-with-honest-peer", fmt.Sprintf("%s: store at %d after polling an honest peer holding %d", where, latest, peerHas), rep)
					return
				case allHonest && peerHas < have && res.Status != polling.PollMiss:
					chk.Violation("poller-misclassifies-lagging-peer", fmt.Sprintf("%s: honest peer that is behind classified %v", where, res.Status), rep)
					return
				}
				chk.Distinct(fmt.Sprintf("poll/%d/%d/%s/%v/%d", have, peerHas, strings.Join(script, ","), res.Status, latest))
				// Whatever the peer did, the poller must not be poisoned by it: a following poll of an honest peer that
				// holds everything must catch up completely and be classified as a hit.
				step = len(script) + 1000
				peerHasSaved := peerHas
				peerHas = total
				info.validUpTo, info.illegal = latest, false
				res2, err := p.Poll(bg, peerHost.ID())
				peerHas = peerHasSaved
				if err != nil {
					chk.Violation("poll-internal-error", fmt.Sprintf("%s, then an honest peer: Poll returned error %v", where, err), rep)
					return
				}
				l2 := uint64(0)
				if l := st.Latest(); l != nil {
					l2 = l.GPBFTInstance + 1
				}
				if res2.Status != polling.PollHit || l2 != total || p.NextInstance != total {
					chk.Violation("poller-poisoned-by-earlier-response", fmt.Sprintf("%s: a following poll of an honest peer holding %d certificates ends with status %v, store at %d, NextInstance %d (%v)", where, total, res2.Status, l2, p.NextInstance, res2.Error), rep)
					return
				}
				for i := uint64(0); i < l2; i++ {
					c, err := st.Get(bg, i)
					if err != nil || !bytes.Equal(blob(c), blob(chain[i])) {
						chk.Violation("poller-stored-unverified-certificate", fmt.Sprintf("%s, then an honest peer: store holds at instance %d something that is not the genuine certificate", where, i), rep)
						return
					}
				}
				peerHost.RemoveStreamHandler(certexchange.FetchProtocolName(nn))
			}
		}
	}
	chk.Add("evaluations", int64(n))
	chk.Set("poller_scripts", n)
	chk.Sample(map[string]any{"kind": "poller", "client_has": 2, "peer_has": 6, "script": []string{"gap", "forged-signature"}})
}

// runClientSeq: what the production client hands to its caller is in sequence — the i-th certificate of a response
// is the one of instance first+i — whatever a responder sends (shifted start, gaps, repeats, reversed order).
func runClientSeq(chk *vcommon.Check) {
	_, hs := vnet.Net(2)
	clientHost, peerHost := hs[0], hs[1]
	chain, _ := honestChain(0, 6)
	shapes := map[string][]int{
		"honest": {0, 1, 2, 3}, "starts-late": {1, 2, 3}, "starts-early": {0, 1, 2}, "gap": {0, 1, 3, 4}, "gap-at-start": {0, 2, 3},
		"repeat": {0, 1, 1, 2}, "reversed": {1, 0}, "jump-back": {0, 1, 2, 1}, "far": {5},
	}
	n := 0
	for name, insts := range shapes {
		for _, first := range []uint64{0, 1} {
			if name == "starts-early" && first == 0 {
				continue
			}
			n++
			resp := &vnet.Responder{Host: peerHost, NN: nn}
			resp.Answer = func(req certexchange.Request) vnet.Reply {
				rep := vnet.Reply{Pending: 6}
				for _, i := range insts {
					rep.Blobs = append(rep.Blobs, blob(chain[i]))
				}
				return rep
			}
			resp.Start()
			client := &certexchange.Client{Host: clientHost, NetworkName: nn}
			_, ch, err := client.Request(bg, peerHost.ID(), &certexchange.Request{FirstInstance: first, Limit: 256})
			if err == nil {
				i := uint64(0)
				for c := range ch {
					if c.GPBFTInstance != first+i {
						chk.Violation("client-delivers-out-of-sequence", fmt.Sprintf("request first=%d, responder sends instances %v (%s): the client handed over instance %d as certificate #%d of the response", first, insts, name, c.GPBFTInstance, i), map[string]any{"kind": "client-sequence", "first": first, "sent": insts})
						break
					}
					i++
				}
			}
			peerHost.RemoveStreamHandler(certexchange.FetchProtocolName(nn))
			chk.Distinct(fmt.Sprintf("cseq/%s/%d", name, first))
			if chk.Violations() > 0 {
				return
			}
		}
	}
	chk.Add("evaluations", int64(n))
	chk.Set("client_sequence_cases", n)
}

func main() {
	prop := flag.String("prop", "C16", "")
	replay := flag.String("replay", "", "")
	flag.Parse()
	_, _ = prop, replay
	chk := vcommon.NewCheck("C16", "model_checking")
	thorough := vcommon.Thorough()
	runServer(chk, thorough)
	if chk.Violations() == 0 {
		runClientSeq(chk)
	}
	if chk.Violations() == 0 {
		runPoller(chk, thorough)
	}
	chk.Set("exhaustive", chk.Violations() == 0)
	chk.Set("rule", "server: every store of length 0..5 (7) with first instance 0 and 5 x first in {0..len+2, 2^64-2, 2^64-1} x limit in {0,1,2,len,256,257,2^64-1} x power-table flag, read both with a raw stream reader (everything on the wire) and with the production client; poller: every script of <=2 (3) responder behaviours out of 12 (honest, forged signature, wrong delta, reordered, duplicated, gap, truncated, over-long, pending too high/low, reset, one-at-a-time) x client holding {0,2} (or gaining 3 / 2 certificates locally between poller creation and poll, or 1-3 while the first request to an honest peer is in flight) x peer holding {0,1,3,6} certificates against the real Poller: the store gains exactly the valid in-sequence prefix sent (never more; never less unless the peer reset a stream); client: responses that start late / early, skip, repeat or go back are never handed over out of sequence")
	chk.Assume("mocknet streams; fake signing backend; the poller is driven through its public API")
	chk.Finish()
}
