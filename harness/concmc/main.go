// concmc — engine E2: systematic exploration of thread interleavings (preemption-bounded DFS under the
// cooperative scheduler vsched) of small concurrent harnesses over the real, source-instrumented code:
//
//	C09  concurrent writers / reader / subscriber on certstore.Store
//	C05  concurrent validation with a progress change and cache eviction
//	C18  lookup vs remote admission vs own broadcast on the chain exchange
//
// The target files are rewritten at check time (tools/yieldgen): "sync" -> vsync shim, a scheduling point
// before every statement.  Results are written to a side file that the property's main harness folds into
// its evidence; violations are printed in the usual format.
package main

import (
	"bytes"
	"context"
	"encoding/json"
	"flag"
	"fmt"
	"io"
	"os"
	"path/filepath"
	"runtime"
	"strings"
	"sync"
	"sync/atomic"

	"github.com/filecoin-project/go-f3/certs"
	"github.com/filecoin-project/go-f3/certstore"
	"github.com/filecoin-project/go-f3/chainexchange"
	"github.com/filecoin-project/go-f3/gpbft"
	"github.com/filecoin-project/go-f3/internal/clock"
	"github.com/filecoin-project/go-f3/internal/encoding"
	"github.com/filecoin-project/go-f3/internal/verif/vcommon"
	"github.com/filecoin-project/go-f3/internal/verif/vfix"
	"github.com/filecoin-project/go-f3/internal/verif/vsched"
	"github.com/filecoin-project/go-f3/internal/writeaheadlog"
	"github.com/ipfs/go-datastore"
	dssync "github.com/ipfs/go-datastore/sync"
	pubsub "github.com/libp2p/go-libp2p-pubsub"
	mocknet "github.com/libp2p/go-libp2p/p2p/net/mock"
	cbg "github.com/whyrusleeping/cbor-gen"
)

var (
	bg   = context.Background()
	keys = vfix.NewKeys(16)
)

type outcome struct {
	fp   string
	what string
}

type scenario struct {
	name  string
	names []string
	// mk returns fresh thread bodies and a checker evaluated after the execution
	mk func() (bodies []func(), check func(res vsched.Result) *outcome)
}

// ---- C09 ----------------------------------------------------------------------------------------------------

func c09Scenario(variant int) scenario {
	table0 := vfix.Canon(gpbft.PowerEntries{keys.Entry(1, gpbft.NewStoragePower(50), 1), keys.Entry(2, gpbft.NewStoragePower(40), 2), keys.Entry(3, gpbft.NewStoragePower(30), 3)})
	tables := []gpbft.PowerEntries{table0}
	var chain []*certs.FinalityCertificate
	head := vfix.TipSet("gen", 0, vfix.TableCID(table0))
	for i := 0; i < 3; i++ {
		cur := tables[i]
		next := vfix.CloneEntries(cur)
		next[0].Power = gpbft.NewStoragePower(next[0].Power.Int64() + int64(5+i))
		next = vfix.Canon(next)
		c := &gpbft.ECChain{TipSets: []*gpbft.TipSet{head, vfix.TipSet("c", head.Epoch+1, vfix.TableCID(cur))}}
		chain = append(chain, keys.Cert(vfix.Network, uint64(i), c, cur, next, vfix.MinimalQuorum(cur)))
		tables = append(tables, next)
		head = c.Head()
	}
	blob := func(c *certs.FinalityCertificate) string {
		if c == nil {
			return "nil"
		}
		var b bytes.Buffer
		_ = c.MarshalCBOR(&b)
		return b.String()
	}
	return scenario{
		name:  fmt.Sprintf("certstore writers/reader/subscriber (variant %d)", variant),
		names: []string{"W1", "W2", "R"},
		mk: func() ([]func(), func(vsched.Result) *outcome) {
			st, err := certstore.CreateStore(bg, dssync.MutexWrap(datastore.NewMapDatastore()), 0, table0)
			if err != nil {
				panic(err)
			}
			st.VerifSetPowerTableFrequency(3)
			if err := st.Put(bg, chain[0]); err != nil {
				panic(err)
			}
			var errs [3]error
			var ptGot gpbft.PowerEntries
			var ptErr error
			var l1, l2 *certs.FinalityCertificate
			var sub <-chan *certs.FinalityCertificate
			var closer func()
			var firstRecv *certs.FinalityCertificate
			w1 := func() {
				errs[0] = st.Put(bg, chain[1])
				errs[1] = st.Put(bg, chain[2])
			}
			w2 := func() {
				if variant == 0 {
					errs[2] = st.Put(bg, chain[1])
				} else {
					errs[2] = st.Put(bg, chain[2]) // may race ahead of W1's first put: gap (error) or duplicate (nil)
				}
			}
			r := func() {
				l1 = st.Latest()
				ptGot, ptErr = st.GetPowerTable(bg, 2)
				sub, closer = st.Subscribe()
				vsched.Point("harness:after-subscribe")
				select {
				case firstRecv = <-sub:
				default:
				}
				l2 = st.Latest()
			}
			check := func(res vsched.Result) *outcome {
				if res.Stalled != "" {
					return &outcome{"writer-blocked", "a thread blocked outside the scheduler's control (a Put waiting on a subscriber channel?): " + res.Stalled}
				}
				if res.Deadlock != "" {
					return &outcome{"deadlock", res.Deadlock}
				}
				if len(res.Panics) > 0 {
					return &outcome{"panic", strings.Join(res.Panics, "; ")}
				}
				if errs[0] != nil || errs[1] != nil {
					return &outcome{"valid-successor-rejected", fmt.Sprintf("W1's puts failed: %v %v", errs[0], errs[1])}
				}
				if variant == 0 && errs[2] != nil {
					return &outcome{"duplicate-put-error", fmt.Sprintf("W2's racing duplicate put failed: %v", errs[2])}
				}
				// final state
				if lt := st.Latest(); lt == nil || blob(lt) != blob(chain[2]) {
					return &outcome{"final-latest-wrong", "after all writers finished the latest certificate is not instance 2"}
				}
				for i := uint64(0); i <= 3; i++ {
					pt, err := st.GetPowerTable(bg, i)
					if err != nil || !pt.Equal(tables[i]) {
						return &outcome{"final-power-table-wrong", fmt.Sprintf("power table %d after the run: %v", i, err)}
					}
				}
				for i := uint64(0); i < 3; i++ {
					c, err := st.Get(bg, i)
					if err != nil || blob(c) != blob(chain[i]) {
						return &outcome{"final-certificate-wrong", fmt.Sprintf("certificate %d after the run: %v", i, err)}
					}
				}
				// reader observations
				if ptErr == nil && !ptGot.Equal(tables[2]) {
					return &outcome{"reader-saw-wrong-power-table", "GetPowerTable(2) returned a table that is not the table of instance 2"}
				}
				inst := func(c *certs.FinalityCertificate) int {
					if c == nil {
						return -1
					}
					return int(c.GPBFTInstance)
				}
				if inst(l2) < inst(l1) {
					return &outcome{"latest-went-backwards", fmt.Sprintf("Latest() returned instance %d and later %d", inst(l1), inst(l2))}
				}
				if ptErr == nil && inst(l2) < 1 {
					return &outcome{"reader-inconsistent", "power table for instance 2 available but latest certificate below 1"}
				}
				if firstRecv != nil && inst(firstRecv) < inst(l1) {
					return &outcome{"subscriber-saw-stale-certificate", fmt.Sprintf("subscription delivered instance %d after Latest() had returned %d", inst(firstRecv), inst(l1))}
				}
				// eventually the latest
				var last *certs.FinalityCertificate
				select {
				case last = <-sub:
				default:
				}
				closer()
				if last == nil {
					last = firstRecv
				}
				if inst(last) != 2 {
					return &outcome{"subscriber-misses-latest", fmt.Sprintf("after all writers finished the subscriber's newest value is instance %d, not 2", inst(last))}
				}
				return nil
			}
			return []func(){w1, w2, r}, check
		},
	}
}

// ---- C05 ----------------------------------------------------------------------------------------------------

type c05env struct{ pt *gpbft.PowerTable }

func (e c05env) GetCommittee(_ context.Context, _ uint64) (*gpbft.Committee, error) {
	agg, err := keys.Aggregate(e.pt.Entries.PublicKeys())
	if err != nil {
		return nil, err
	}
	return &gpbft.Committee{PowerTable: e.pt, Beacon: []byte("b"), AggregateVerifier: agg}, nil
}

func c05Scenario(variant int) scenario {
	table := vfix.Canon(gpbft.PowerEntries{keys.Entry(1, gpbft.NewStoragePower(10), 1), keys.Entry(2, gpbft.NewStoragePower(10), 2), keys.Entry(3, gpbft.NewStoragePower(10), 3)})
	pt := vfix.PowerTable(table)
	tc := vfix.TableCID(table)
	supp := gpbft.SupplementalData{PowerTable: tc}
	chain := vfix.Chain(vfix.TipSet("g", 1, tc), "v", 1, tc)
	mk := func(inst uint64, good bool) *gpbft.GMessage {
		jp := gpbft.Payload{Instance: inst, Round: 0, Phase: gpbft.PREPARE_PHASE, SupplementalData: supp, Value: chain}
		j := keys.Justify(vfix.Network, table, jp, []int{0, 1})
		if !good {
			j.Signature = append([]byte{}, j.Signature...)
			j.Signature[0] ^= 1
		}
		p := gpbft.Payload{Instance: inst, Round: 0, Phase: gpbft.COMMIT_PHASE, SupplementalData: supp, Value: chain}
		sig, _ := keys.Sign(bg, table[0].PubKey, p.MarshalForSigning(vfix.Network))
		return &gpbft.GMessage{Sender: table[0].ID, Vote: p, Signature: sig, Justification: j}
	}
	classify := func(err error) string {
		switch {
		case err == nil:
			return "accept"
		case strings.Contains(err.Error(), "invalid"):
			return "invalid"
		}
		return "other"
	}
	return scenario{
		name:  fmt.Sprintf("concurrent validation with progress change and eviction (variant %d)", variant),
		names: []string{"V1", "V2", "P"},
		mk: func() ([]func(), func(vsched.Result) *outcome) {
			var prog atomic.Pointer[gpbft.InstanceProgress]
			prog.Store(&gpbft.InstanceProgress{Instant: gpbft.Instant{ID: 5, Round: 0, Phase: gpbft.COMMIT_PHASE}})
			v := gpbft.VerifNewValidator(vfix.Network, keys, c05env{pt}, func() gpbft.InstanceProgress { return *prog.Load() }, 2, 2, 10)
			good, forged := mk(5, true), mk(5, false)
			other := mk(6, true)
			var r1a, r1b, r2, r3 string
			t1 := func() {
				_, err := v.ValidateMessage(bg, good)
				r1a = classify(err)
				_, err = v.ValidateMessage(bg, good)
				r1b = classify(err)
			}
			t2 := func() {
				_, err := v.ValidateMessage(bg, forged)
				r2 = classify(err)
			}
			t3 := func() {
				if variant == 0 {
					_, err := v.ValidateMessage(bg, other)
					r3 = classify(err)
					v.EvictGroupsBelow(6)
				} else {
					prog.Store(&gpbft.InstanceProgress{Instant: gpbft.Instant{ID: 6, Round: 0, Phase: gpbft.QUALITY_PHASE}})
					vsched.Point("harness:progress-changed")
					v.EvictGroupsBelow(5)
					_, err := v.ValidateMessage(bg, other)
					r3 = classify(err)
				}
			}
			check := func(res vsched.Result) *outcome {
				if res.Stalled != "" || res.Deadlock != "" {
					return &outcome{"deadlock", res.Stalled + res.Deadlock}
				}
				if len(res.Panics) > 0 {
					return &outcome{"panic", strings.Join(res.Panics, "; ")}
				}
				if r2 == "accept" {
					return &outcome{"forged-message-accepted-under-concurrency", "a message with an invalid justification aggregate was accepted while a valid twin was validated concurrently"}
				}
				okGood := func(r string) bool {
					if variant == 0 {
						return r == "accept"
					}
					return r == "accept" || r == "other" // after the progress change the message is for a past instance: too old
				}
				if !okGood(r1a) || !okGood(r1b) {
					return &outcome{"valid-message-verdict-wrong-under-concurrency", fmt.Sprintf("verdicts for the valid message: %s, %s", r1a, r1b)}
				}
				if r3 != "accept" {
					return &outcome{"valid-message-verdict-wrong-under-concurrency", fmt.Sprintf("verdict for the valid instance-6 message: %s", r3)}
				}
				return nil
			}
			return []func(){t1, t2, t3}, check
		},
	}
}

// c05ProgressScenario: the participant announces a legal sequence of progress states through the production
// progress cell while two validation threads read it: every read must be one of the announced states (never a
// mixture), and a message that is acceptable under each announced state must be accepted whenever it is validated.
func c05ProgressScenario() scenario {
	table := vfix.Canon(gpbft.PowerEntries{keys.Entry(1, gpbft.NewStoragePower(10), 1), keys.Entry(2, gpbft.NewStoragePower(10), 2), keys.Entry(3, gpbft.NewStoragePower(10), 3)})
	pt := vfix.PowerTable(table)
	tc := vfix.TableCID(table)
	supp := gpbft.SupplementalData{PowerTable: tc}
	chain := vfix.Chain(vfix.TipSet("g", 1, tc), "v", 1, tc)
	states := []gpbft.InstanceProgress{
		{Instant: gpbft.Instant{ID: 5, Round: 3, Phase: gpbft.DECIDE_PHASE}, Input: chain},
		{Instant: gpbft.Instant{ID: 6, Round: 0, Phase: gpbft.INITIAL_PHASE}},
		{Instant: gpbft.Instant{ID: 6, Round: 0, Phase: gpbft.QUALITY_PHASE}, Input: chain},
	}
	// a PREPARE of round 0 of instance 6: relevant in instance 6 at round 0, and (next instance) while in instance 5
	p := gpbft.Payload{Instance: 6, Round: 0, Phase: gpbft.PREPARE_PHASE, SupplementalData: supp, Value: chain}
	sig, _ := keys.Sign(bg, table[0].PubKey, p.MarshalForSigning(vfix.Network))
	msg := &gpbft.GMessage{Sender: table[0].ID, Vote: p, Signature: sig}
	same := func(a, b gpbft.InstanceProgress) bool {
		return a.Instant == b.Instant && a.Input == b.Input
	}
	return scenario{
		name:  "progress cell: participant announces, validators read",
		names: []string{"P", "V1", "V2"},
		mk: func() ([]func(), func(vsched.Result) *outcome) {
			cell := gpbft.VerifNewProgression()
			cell.Notify(states[0])
			v := gpbft.VerifNewValidator(vfix.Network, keys, c05env{pt}, cell.Get, 2, 2, 10)
			var seen [2][]gpbft.InstanceProgress
			var verdict [2]error
			writer := func() {
				cell.Notify(states[1])
				cell.Notify(states[2])
			}
			reader := func(i int) func() {
				return func() {
					seen[i] = append(seen[i], cell.Get())
					_, verdict[i] = v.ValidateMessage(bg, msg)
					seen[i] = append(seen[i], cell.Get())
				}
			}
			check := func(res vsched.Result) *outcome {
				if res.Stalled != "" || res.Deadlock != "" {
					return &outcome{"deadlock", res.Stalled + res.Deadlock}
				}
				if len(res.Panics) > 0 {
					return &outcome{"panic", strings.Join(res.Panics, "; ")}
				}
				for i := range seen {
					for _, got := range seen[i] {
						ok := false
						for _, st := range states {
							ok = ok || same(got, st)
						}
						if !ok {
							return &outcome{"reader-saw-progress-never-announced", fmt.Sprintf("a validation thread read progress %+v (input set: %v), which the participant never announced", got.Instant, got.Input != nil)}
						}
					}
					if verdict[i] != nil {
						return &outcome{"valid-message-verdict-wrong-under-concurrency", fmt.Sprintf("a message acceptable under every announced progress was rejected while the progress changed: %v", verdict[i])}
					}
				}
				return nil
			}
			return []func(){writer, reader(0), reader(1)}, check
		},
	}
}

// ---- C11 ----------------------------------------------------------------------------------------------------

// wEnt is a write-ahead-log entry: (id, epoch).
type wEnt struct{ ID, Epoch uint64 }

func (e *wEnt) WALEpoch() uint64 { return e.Epoch }
func (e *wEnt) MarshalCBOR(w io.Writer) error {
	cw := cbg.NewCborWriter(w)
	if err := cw.WriteMajorTypeHeader(cbg.MajArray, 2); err != nil {
		return err
	}
	if err := cw.WriteMajorTypeHeader(cbg.MajUnsignedInt, e.ID); err != nil {
		return err
	}
	return cw.WriteMajorTypeHeader(cbg.MajUnsignedInt, e.Epoch)
}
func (e *wEnt) UnmarshalCBOR(r io.Reader) error {
	cr := cbg.NewCborReader(r)
	if _, n, err := cr.ReadHeader(); err != nil || n != 2 {
		if err == nil {
			err = fmt.Errorf("bad entry header")
		}
		return err
	}
	_, id, err := cr.ReadHeader()
	if err != nil {
		return err
	}
	_, ep, err := cr.ReadHeader()
	if err != nil {
		return err
	}
	e.ID, e.Epoch = id, ep
	return nil
}

var c11Dir = vcommon.ShmDir("conc-c11")

// c11Scenario: the node's finalize goroutine purges old closed files while its runner appends (and a file is
// closed by a rotation) and a reader lists the log: every acknowledged entry at or above the purge epoch must be
// returned by every complete read that starts after its acknowledgement, and by the log afterwards.
func c11Scenario(variant int) scenario {
	var seq atomic.Int64
	return scenario{
		name:  fmt.Sprintf("write-ahead log purge / append+rotate / read (variant %d)", variant),
		names: []string{"P", "A", "R"},
		mk: func() ([]func(), func(vsched.Result) *outcome) {
			if _, err := os.Stat("/dev/shm"); err != nil {
				c11Dir = filepath.Join(os.TempDir(), filepath.Base(c11Dir))
			}
			dir := filepath.Join(c11Dir, fmt.Sprintf("x%d", seq.Add(1)))
			_ = os.RemoveAll(dir)
			w, err := writeaheadlog.Open[wEnt, *wEnt](dir)
			if err != nil {
				panic(err)
			}
			must := func(err error) {
				if err != nil {
					panic(err)
				}
			}
			// two closed files of old epochs, one closed file of a live epoch, an active file
			must(w.Append(wEnt{1, 1}))
			must(w.Rotate())
			must(w.Append(wEnt{2, 2}))
			must(w.Rotate())
			must(w.Append(wEnt{3, 7}))
			must(w.Rotate())
			must(w.Append(wEnt{4, 8}))
			acked := map[uint64]bool{3: true, 4: true} // acknowledged and at or above the purge epoch 5
			var pErr, aErr error
			var during []wEnt
			var duringErr error
			var ackedBeforeRead map[uint64]bool
			purge := func() { pErr = w.Purge(5) }
			appendRotate := func() {
				if aErr = w.Append(wEnt{5, 8}); aErr != nil {
					return
				}
				if variant == 0 {
					aErr = w.Rotate()
				} else {
					if aErr = w.Close(); aErr == nil { // a clean stop of the writer closes the active file as well
						aErr = w.Append(wEnt{6, 9})
					}
				}
			}
			read := func() {
				ackedBeforeRead = map[uint64]bool{3: true, 4: true}
				during, duringErr = w.All()
			}
			check := func(res vsched.Result) *outcome {
				defer os.RemoveAll(dir)
				if res.Stalled != "" || res.Deadlock != "" {
					return &outcome{"deadlock", res.Stalled + res.Deadlock}
				}
				if len(res.Panics) > 0 {
					return &outcome{"panic", strings.Join(res.Panics, "; ")}
				}
				if pErr != nil || aErr != nil || duringErr != nil {
					return &outcome{"wal-operation-failed-under-concurrency", fmt.Sprintf("purge: %v, append/rotate: %v, read: %v", pErr, aErr, duringErr)}
				}
				acked[5] = true
				if variant == 1 {
					acked[6] = true
				}
				has := func(es []wEnt, id uint64) bool {
					for _, e := range es {
						if e.ID == id {
							return true
						}
					}
					return false
				}
				for id := range ackedBeforeRead {
					if !has(during, id) {
						return &outcome{"acknowledged-entry-missing-from-concurrent-read", fmt.Sprintf("entry %d (epoch >= 5, acknowledged before the read started) is missing from a read that ran concurrently with a purge below epoch 5: %v", id, during)}
					}
				}
				verify := func(when string, es []wEnt) *outcome {
					for id := range acked {
						if !has(es, id) {
							return &outcome{"acknowledged-entry-lost-under-concurrency", fmt.Sprintf("%s: entry %d (acknowledged, epoch >= the purge epoch) is no longer returned: %v", when, id, es)}
						}
					}
					for _, e := range es {
						if e.ID < 1 || e.ID > 6 {
							return &outcome{"read-returns-unappended-entry", fmt.Sprintf("%s: %v", when, es)}
						}
					}
					return nil
				}
				after, err := w.All()
				if err != nil {
					return &outcome{"wal-operation-failed-under-concurrency", err.Error()}
				}
				if o := verify("after the three threads finished", after); o != nil {
					return o
				}
				// a second purge and a restart must agree
				if err := w.Purge(5); err != nil {
					return &outcome{"wal-operation-failed-under-concurrency", err.Error()}
				}
				_ = w.Close()
				w2, err := writeaheadlog.Open[wEnt, *wEnt](dir)
				if err != nil {
					return &outcome{"wal-operation-failed-under-concurrency", "reopen: " + err.Error()}
				}
				re, err := w2.All()
				_ = w2.Close()
				if err != nil {
					return &outcome{"wal-operation-failed-under-concurrency", err.Error()}
				}
				if o := verify("after another purge and a restart", re); o != nil {
					return o
				}
				for _, e := range re {
					if e.Epoch < 5 && e.ID <= 2 {
						return &outcome{"purge-incomplete-under-concurrency", fmt.Sprintf("closed file with entry %d (epoch %d < 5) survived two purges: %v", e.ID, e.Epoch, re)}
					}
				}
				return nil
			}
			return []func(){purge, appendRotate, read}, check
		},
	}
}

// ---- C18 ----------------------------------------------------------------------------------------------------

var ps *pubsub.PubSub

func c18Scenario(variant int) scenario {
	tc := vfix.TableCID(nil)
	base := vfix.TipSet("b", 10, tc)
	c1 := vfix.Chain(base, "x", 2, tc)
	c2 := vfix.Chain(base, "y", 1, tc)
	return scenario{
		name:  fmt.Sprintf("chain exchange lookup / remote admission / own broadcast (variant %d)", variant),
		names: []string{"L", "A", "O"},
		mk: func() ([]func(), func(vsched.Result) *outcome) {
			clk := clock.NewMock()
			cx, err := chainexchange.NewPubSubChainExchange(
				chainexchange.WithProgress(func() gpbft.InstanceProgress {
					return gpbft.InstanceProgress{Instant: gpbft.Instant{ID: 5, Phase: gpbft.PREPARE_PHASE}, Input: c1}
				}),
				chainexchange.WithPubSub(ps), chainexchange.WithTopicName("/verif/cx"),
				chainexchange.WithMaxDiscoveredChainsPerInstance(4), chainexchange.WithMaxWantedChainsPerInstance(6),
				chainexchange.WithClock(clk))
			if err != nil {
				panic(err)
			}
			enc := func(c *gpbft.ECChain) []byte {
				d, err := cx.VerifEncode(&chainexchange.Message{Instance: 5, Chain: c, Timestamp: clk.Now().UnixMilli()})
				if err != nil {
					panic(err)
				}
				return d
			}
			d1 := enc(c1)
			var got1, got2 *gpbft.ECChain
			var ok1, ok2 bool
			var res pubsub.ValidationResult
			l := func() {
				got1, ok1 = cx.GetChainByInstance(bg, 5, c1.Key())
				got2, ok2 = cx.GetChainByInstance(bg, 5, c1.Prefix(1).Key())
			}
			a := func() { res = cx.VerifReceive(bg, d1) }
			o := func() {
				if variant == 0 {
					cx.VerifOwnBroadcast(bg, chainexchange.Message{Instance: 5, Chain: c2})
				} else {
					cx.VerifOwnBroadcast(bg, chainexchange.Message{Instance: 5, Chain: c1})
				}
			}
			check := func(r vsched.Result) *outcome {
				if r.Stalled != "" || r.Deadlock != "" {
					return &outcome{"deadlock", r.Stalled + r.Deadlock}
				}
				if len(r.Panics) > 0 {
					return &outcome{"panic", strings.Join(r.Panics, "; ")}
				}
				if res != pubsub.ValidationAccept {
					return &outcome{"admissible-broadcast-not-admitted", fmt.Sprint(res)}
				}
				if ok1 && got1.Key() != c1.Key() || ok2 && got2.Key() != c1.Prefix(1).Key() {
					return &outcome{"lookup-returns-chain-with-other-key", "a concurrent lookup returned a chain whose key differs from the requested key"}
				}
				// eventually retrievable: after everything finished both keys must be found (they were asked for and admitted)
				f1, k1 := cx.GetChainByInstance(bg, 5, c1.Key())
				f2, k2 := cx.GetChainByInstance(bg, 5, c1.Prefix(1).Key())
				if !k1 || !k2 || f1.Key() != c1.Key() || f2.Key() != c1.Prefix(1).Key() {
					return &outcome{"asked-for-chain-lost-under-concurrency", fmt.Sprintf("after a lookup raced with the admission of the chain, a later lookup does not find it (chain found=%v, prefix found=%v)", k1, k2)}
				}
				return nil
			}
			return []func(){l, a, o}, check
		},
	}
}

// ---- C14 ----------------------------------------------------------------------------------------------------

func c14Scenario() scenario {
	tc := vfix.TableCID(nil)
	base := vfix.TipSet("b", 10, tc)
	mA := &chainexchange.Message{Instance: 4, Chain: vfix.Chain(base, "aaaa", 6, tc), Timestamp: 111}
	mB := &chainexchange.Message{Instance: 9, Chain: vfix.Chain(base, "bbbb", 6, tc), Timestamp: 222}
	return scenario{
		name:  "two concurrent ZSTD decodes sharing the decompression buffer pool",
		names: []string{"D1", "D2"},
		mk: func() ([]func(), func(vsched.Result) *outcome) {
			z, err := encoding.NewZSTD[*chainexchange.Message]()
			if err != nil {
				panic(err)
			}
			fA, _ := z.Encode(mA)
			fB, _ := z.Encode(mB)
			var gA, gB chainexchange.Message
			var eA, eB error
			d1 := func() { eA = z.Decode(fA, &gA) }
			d2 := func() { eB = z.Decode(fB, &gB) }
			check := func(r vsched.Result) *outcome {
				if r.Stalled != "" || r.Deadlock != "" {
					return &outcome{"deadlock", r.Stalled + r.Deadlock}
				}
				if len(r.Panics) > 0 {
					return &outcome{"panic", strings.Join(r.Panics, "; ")}
				}
				if eA != nil || eB != nil {
					return &outcome{"concurrent-decode-fails", fmt.Sprintf("decoding valid frames concurrently failed: %v / %v", eA, eB)}
				}
				if gA.Instance != mA.Instance || gA.Timestamp != mA.Timestamp || !gA.Chain.Eq(mA.Chain) || gB.Instance != mB.Instance || gB.Timestamp != mB.Timestamp || !gB.Chain.Eq(mB.Chain) {
					return &outcome{"concurrent-decode-corrupts-value", "two concurrent decodes: decode(encode(x)) != x (the decoded value contains data of the other message)"}
				}
				return nil
			}
			return []func(){d1, d2}, check
		},
	}
}

type sideResult struct {
	Property     string   `json:"property"`
	Schedules    int64    `json:"schedules"`
	Complete     bool     `json:"complete_within_bound"`
	PreemptBound int      `json:"preemption_bound"`
	Scenarios    []string `json:"scenarios"`
	Outcomes     int      `json:"distinct_interleaving_traces"`
	Violations   int      `json:"violations"`
	SampleTraces []string `json:"sample_traces"`
}

func main() {
	prop := flag.String("prop", "", "C05, C09 or C18")
	bound := flag.Int("preempt", -1, "preemption bound")
	debugPrefix := flag.String("debugprefix", "", "comma separated choices: execute scenario 0 twice with this prefix and print steps")
	replayPath := flag.String("replay", "", "re-execute the schedule recorded in this artefact")
	free := flag.Int("free", 0, "run every scenario N times free-running (no scheduler): meant for a -race build, which sees unsynchronised accesses that cooperative hand-offs hide")
	flag.Parse()
	thorough := vcommon.Thorough()
	pb := 2
	limit := int64(150000)
	if thorough {
		pb, limit = 3, 3000000
	}
	if *bound >= 0 {
		pb = *bound
	}
	var scs []scenario
	switch *prop {
	case "C09":
		scs = []scenario{c09Scenario(0), c09Scenario(1)}
	case "C05":
		scs = []scenario{c05Scenario(0), c05Scenario(1), c05ProgressScenario()}
	case "C11":
		scs = []scenario{c11Scenario(0), c11Scenario(1)}
	case "C14":
		runtime.GOMAXPROCS(1) // makes sync.Pool reuse between the two controlled threads deterministic
		scs = []scenario{c14Scenario()}
	case "C18":
		mn := mocknet.New()
		h, err := mn.GenPeer()
		if err != nil {
			panic(err)
		}
		if ps, err = pubsub.NewGossipSub(bg, h); err != nil {
			panic(err)
		}
		scs = []scenario{c18Scenario(0), c18Scenario(1)}
	default:
		fmt.Fprintln(os.Stderr, "concmc: -prop must be C05, C09, C14 or C18")
		os.Exit(2)
	}
	if *replayPath != "" {
		// re-execute one recorded schedule (no exploration): the same choices on a fresh instance of the scenario
		raw, err := os.ReadFile(*replayPath)
		if err != nil {
			fmt.Fprintln(os.Stderr, err)
			os.Exit(2)
		}
		var doc struct {
			Property string `json:"property"`
			Replay   struct {
				Scenario string `json:"scenario"`
				Choices  []int  `json:"choices"`
			} `json:"replay"`
		}
		if err := json.Unmarshal(raw, &doc); err != nil {
			fmt.Fprintln(os.Stderr, err)
			os.Exit(2)
		}
		for _, sc := range scs {
			if sc.name != doc.Replay.Scenario {
				continue
			}
			b, check := sc.mk()
			var res vsched.Result
			diverged := func() (d any) {
				defer func() { d = recover() }()
				res = vsched.Execute(sc.names, b, doc.Replay.Choices, 4000, 90e9)
				return nil
			}()
			if diverged != nil {
				// the recorded choices name scheduling points that this tree does not have (the code between the
				// recorded points differs): the interleaving cannot be re-executed here
				_ = os.RemoveAll(c11Dir)
				fmt.Printf("the recorded schedule does not apply to this tree (%v): not reproduced; run ./check %s for a fresh exploration\n", diverged, *prop)
				os.Exit(0)
			}
			fmt.Printf("schedule %v\n", res.Trace)
			_ = os.RemoveAll(c11Dir)
			if o := check(res); o != nil {
				fmt.Printf("VIOLATION property=%s replay=%s\n  fingerprint=conc:%s\n  %s\n", *prop, *replayPath, o.fp, o.what)
				os.Exit(1)
			}
			fmt.Println("no violation on this tree")
			os.Exit(0)
		}
		fmt.Fprintf(os.Stderr, "unknown scenario %q\n", doc.Replay.Scenario)
		os.Exit(2)
	}
	if *debugPrefix != "" {
		var pre []int
		for _, f := range strings.Split(*debugPrefix, ",") {
			var x int
			fmt.Sscanf(f, "%d", &x)
			pre = append(pre, x)
		}
		vsched.Debug = true
		for i := 0; i < 2; i++ {
			fmt.Println("=== run", i)
			b, _ := scs[0].mk()
			vsched.Execute(scs[0].names, b, pre, 4000, 90e9)
		}
		return
	}
	if *free > 0 {
		bad := 0
		for _, sc := range scs {
			for i := 0; i < *free; i++ {
				bodies, check := sc.mk()
				var wg sync.WaitGroup
				for _, b := range bodies {
					wg.Add(1)
					go func(b func()) { defer wg.Done(); b() }(b)
				}
				wg.Wait()
				if o := check(vsched.Result{}); o != nil {
					bad++
					fmt.Printf("free-running %s: %s: %s\n", sc.name, o.fp, o.what)
				}
			}
		}
		fmt.Printf("free-running pass: %d scenario(s) x %d runs, %d oracle failures\n", len(scs), *free, bad)
		if bad > 0 {
			os.Exit(1)
		}
		return
	}
	side := sideResult{Property: *prop, PreemptBound: pb, Complete: true}
	traces := map[string]struct{}{}
	rc := 0
	for _, sc := range scs {
		side.Scenarios = append(side.Scenarios, sc.name)
		var check func(vsched.Result) *outcome
		var viol *outcome
		var violRes vsched.Result
		execs, complete := vsched.Explore(sc.names, func() []func() {
			var b []func()
			b, check = sc.mk()
			return b
		}, pb, 4000, limit, func(res vsched.Result) bool {
			tr := strings.Join(res.Trace, ">")
			if _, ok := traces[tr]; !ok && len(traces) < 200000 {
				traces[tr] = struct{}{}
				if len(side.SampleTraces) < 5 {
					side.SampleTraces = append(side.SampleTraces, tr)
				}
			}
			if o := check(res); o != nil {
				viol, violRes = o, res
				return false
			}
			return true
		})
		side.Schedules += execs
		if viol != nil {
			// replay the schedule: the same choices must fail again
			again := 0
			for i := 0; i < 3 && violRes.Stalled == ""; i++ {
				var chk2 func(vsched.Result) *outcome
				b, c := sc.mk()
				chk2 = c
				r2 := vsched.Execute(sc.names, b, violRes.Choices, 4000, 90e9)
				if o := chk2(r2); o != nil && o.fp == viol.fp {
					again++
				}
			}
			if violRes.Stalled != "" || again == 3 {
				side.Violations++
				rc = 1
				dir := filepath.Join(vcommon.Dir(), "replays")
				if d := os.Getenv("VERIF_EVIDENCE_DIR"); d != "" {
					dir = filepath.Join(d, "replays")
				}
				_ = os.MkdirAll(dir, 0o755)
				path := filepath.Join(dir, fmt.Sprintf("%s-conc-%s.json", *prop, viol.fp))
				body, _ := json.MarshalIndent(map[string]any{"property": *prop, "fingerprint": "conc:" + viol.fp, "what": viol.what,
					"replay": map[string]any{"kind": "schedule", "scenario": sc.name, "threads": sc.names, "choices": violRes.Choices, "trace": violRes.Trace}}, "", " ")
				_ = os.WriteFile(path, body, 0o644)
				fmt.Printf("VIOLATION property=%s replay=%s\n  fingerprint=conc:%s\n  scenario %q, schedule %v: %s\n", *prop, path, viol.fp, sc.name, violRes.Trace, viol.what)
			} else {
				fmt.Printf("UNSTABLE (not reported): %s %s reproduced %d/3\n", *prop, viol.fp, again)
			}
			continue
		}
		if !complete {
			side.Complete = false
		}
		fmt.Printf("%s concurrency %-70s schedules=%d complete=%v (preemptions<=%d)\n", *prop, sc.name, execs, complete, pb)
	}
	side.Outcomes = len(traces)
	out := vcommon.ConcSide(*prop)
	body, _ := json.MarshalIndent(side, "", " ")
	_ = os.MkdirAll(filepath.Dir(out), 0o755)
	_ = os.WriteFile(out, body, 0o644)
	_ = os.RemoveAll(c11Dir)
	os.Exit(rc)
}
