// quorumenum — C08: exhaustive enumeration of the quorum arithmetic on its whole finite domain and of
// power-table scaling on a magnitude alphabet; three-way agreement of certificate validator, message
// validator and vote tally on every signer subset.
package main

import (
	"context"
	"flag"
	"fmt"
	"math/big"
	"os"
	"runtime"
	"sync"
	"sync/atomic"
	"time"

	"github.com/filecoin-project/go-f3/certs"
	"github.com/filecoin-project/go-f3/gpbft"
	"github.com/filecoin-project/go-f3/internal/verif/vcommon"
	"github.com/filecoin-project/go-f3/internal/verif/vfix"
	gbig "github.com/filecoin-project/go-state-types/big"
)

var chk *vcommon.Check

func strongRef(part, whole int64) bool { return 3*part >= 2*whole } // no overflow for |x| < 2^61

func strongRefBig(part, whole *big.Int) bool {
	return new(big.Int).Mul(big.NewInt(3), part).Cmp(new(big.Int).Mul(big.NewInt(2), whole)) >= 0
}

// ---- part 1: the predicates on the full 16-bit domain ----------------------------------------------

func predicates(maxWhole int64) {
	var evals atomic.Int64
	var wg sync.WaitGroup
	nw := runtime.NumCPU()
	var failMu sync.Mutex
	report := func(fp, what string, replay any) {
		failMu.Lock()
		defer failMu.Unlock()
		chk.Violation(fp, what, replay)
	}
	for wk := 0; wk < nw; wk++ {
		wg.Add(1)
		go func(wk int) {
			defer wg.Done()
			var n int64
			for whole := int64(wk); whole <= maxWhole; whole += int64(nw) {
				minStrong := int64(-1)
				for part := int64(0); part <= whole; part++ {
					n++
					got := gpbft.IsStrongQuorum(part, whole)
					if got != strongRef(part, whole) {
						report("IsStrongQuorum-inexact", fmt.Sprintf("IsStrongQuorum(%d,%d)=%v but 3*part>=2*whole is %v", part, whole, got, !got),
							map[string]any{"fn": "IsStrongQuorum", "part": part, "whole": whole})
						return
					}
					if got && minStrong < 0 {
						minStrong = part
					}
					if gpbft.VerifHasWeakQuorum(part, whole) && !(3*part > whole) {
						report("weak-quorum-not-above-third", fmt.Sprintf("hasWeakQuorum(%d,%d) holds but part does not strictly exceed whole/3", part, whole),
							map[string]any{"fn": "hasWeakQuorum", "part": part, "whole": whole})
						return
					}
				}
				// quorum intersection: two minimal strong quorums overlap in >= 1/3 of the total
				if minStrong >= 0 && whole > 0 {
					overlap := 2*minStrong - whole
					if 3*overlap < whole {
						report("quorum-intersection-below-third", fmt.Sprintf("whole=%d minimal strong quorum=%d: overlap %d < whole/3", whole, minStrong, overlap),
							map[string]any{"fn": "intersection", "whole": whole, "min": minStrong})
						return
					}
					// a weak quorum can never be entirely inside the complement of a strong quorum plus ... (strictly > 1/3)
				}
			}
			evals.Add(n)
		}(wk)
	}
	wg.Wait()
	chk.Add("evaluations", evals.Load())
	chk.Add("predicate_pairs", evals.Load())
}

// ---- part 2: tally behaviour through a real quorumState --------------------------------------------

func mkTable(powers []int64) *gpbft.PowerTable {
	// A PowerTable with prescribed *scaled* powers (fields are exported): the tally only reads
	// ScaledPower / ScaledTotal / Lookup.
	pt := gpbft.NewPowerTable()
	for i, p := range powers {
		pt.Entries = append(pt.Entries, gpbft.PowerEntry{ID: gpbft.ActorID(i + 1), Power: gpbft.NewStoragePower(p + 1), PubKey: []byte{byte(i + 1)}})
		pt.ScaledPower = append(pt.ScaledPower, p)
		pt.Lookup[gpbft.ActorID(i+1)] = i
		pt.ScaledTotal += p
	}
	return pt
}

var (
	chainV = &gpbft.ECChain{TipSets: []*gpbft.TipSet{{Epoch: 0, Key: []byte("b"), PowerTable: vfix.TableCID(nil)}, {Epoch: 1, Key: []byte("v"), PowerTable: vfix.TableCID(nil)}}}
	chainX = &gpbft.ECChain{TipSets: []*gpbft.TipSet{{Epoch: 0, Key: []byte("b"), PowerTable: vfix.TableCID(nil)}, {Epoch: 1, Key: []byte("x"), PowerTable: vfix.TableCID(nil)}}}
	chainW = &gpbft.ECChain{TipSets: []*gpbft.TipSet{{Epoch: 0, Key: []byte("b"), PowerTable: vfix.TableCID(nil)}, {Epoch: 1, Key: []byte("w"), PowerTable: vfix.TableCID(nil)}}}
)

func tallyCase(whole, support, other int64) bool {
	unvoted := whole - support - other
	pt := mkTable([]int64{support, other, unvoted})
	q := gpbft.VerifNewQuorumState(pt)
	q.Receive(1, chainV, []byte("s1"))
	q.Receive(2, chainW, []byte("s2"))
	chk.Add("evaluations", 1)
	rep := map[string]any{"fn": "tally", "whole": whole, "support": support, "other": other}
	if got, want := q.HasStrongQuorumFor(chainV.Key()), strongRef(support, whole); got != want {
		chk.Violation("tally-strong-quorum-inexact", fmt.Sprintf("tally whole=%d support=%d: HasStrongQuorumFor=%v want %v", whole, support, got, want), rep)
		return false
	}
	if got, want := q.ReceivedFromStrongQuorum(), strongRef(support+other, whole); got != want {
		chk.Violation("tally-received-strong-inexact", fmt.Sprintf("whole=%d voters=%d: ReceivedFromStrongQuorum=%v want %v", whole, support+other, got, want), rep)
		return false
	}
	if q.ReceivedFromWeakQuorum() && !(3*(support+other) > whole) {
		chk.Violation("tally-weak-not-above-third", fmt.Sprintf("whole=%d voters=%d counted as weak quorum", whole, support+other), rep)
		return false
	}
	// could-reach without adversary: exact
	can := strongRef(support+unvoted, whole)
	if got := q.CouldReachStrongQuorumFor(chainV.Key(), false); got != can {
		chk.Violation("could-reach-inexact", fmt.Sprintf("whole=%d support=%d other=%d: CouldReachStrongQuorumFor=%v but support+unvoted=%d reaches a strong quorum: %v", whole, support, other, got, support+unvoted, can), rep)
		return false
	}
	// with adversary slack: reported "cannot" must imply cannot even with floor(whole/3) double votes
	slack := support + unvoted + whole/3
	if slack > whole {
		slack = whole
	}
	if got, want := q.CouldReachStrongQuorumFor(chainV.Key(), true), strongRef(slack, whole); got != want {
		chk.Violation("could-reach-adversary-inexact", fmt.Sprintf("whole=%d support=%d other=%d withAdversary: got %v want %v", whole, support, other, got, want), rep)
		return false
	}
	// a value nobody has voted for (no tally entry at all): only the unvoted power (plus the slack) can support it
	if got, want := q.CouldReachStrongQuorumFor(chainX.Key(), false), strongRef(unvoted, whole); got != want {
		chk.Violation("could-reach-inexact", fmt.Sprintf("whole=%d voted=%d: CouldReachStrongQuorumFor(a value without any vote)=%v but the unvoted %d reach a strong quorum: %v", whole, support+other, got, unvoted, want), rep)
		return false
	}
	slackX := unvoted + whole/3
	if slackX > whole {
		slackX = whole
	}
	if got, want := q.CouldReachStrongQuorumFor(chainX.Key(), true), strongRef(slackX, whole); got != want {
		chk.Violation("could-reach-adversary-inexact", fmt.Sprintf("whole=%d voted=%d withAdversary, a value without any vote: got %v want %v (unvoted %d + slack %d)", whole, support+other, got, want, unvoted, whole/3), rep)
		return false
	}
	return true
}

func tally(thorough bool) {
	small := int64(48)
	if thorough {
		small = 96
	}
	for whole := int64(1); whole <= small; whole++ {
		for support := int64(0); support <= whole; support++ {
			for other := int64(0); support+other <= whole; other++ {
				if !tallyCase(whole, support, other) {
					return
				}
				chk.Distinct(fmt.Sprintf("t%d/%d/%d", whole, support, other))
			}
		}
	}
	// boundary band for every whole of the 16-bit domain
	step := int64(7)
	if thorough {
		step = 1
	}
	for whole := small + 1; whole <= 65535; whole += step {
		for d := int64(-3); d <= 3; d++ {
			support := (2*whole)/3 + d
			if support < 0 || support > whole {
				continue
			}
			for _, other := range []int64{0, 1, (whole - support) / 2, whole - support} {
				if other < 0 || support+other > whole {
					continue
				}
				if !tallyCase(whole, support, other) {
					return
				}
			}
			// support low, the rest unvoted or voted elsewhere near the 1/3 boundary
			low := whole/3 + d
			if low >= 0 && low <= whole {
				for _, other := range []int64{0, whole - low, (whole - low) / 2} {
					if !tallyCase(whole, low, other) {
						return
					}
				}
			}
		}
	}
}

// ---- part 3: large int64 bands (overflow boundary) ---------------------------------------------------

func largeBand() {
	for k := uint(17); k <= 61; k++ {
		for dw := int64(-2); dw <= 2; dw++ {
			whole := int64(1)<<k + dw
			for dp := int64(-3); dp <= 3; dp++ {
				for _, base := range []int64{2 * (whole / 3), whole / 3, whole - 1, 0} {
					part := base + dp
					if part < 0 || part > whole {
						continue
					}
					chk.Add("evaluations", 1)
					want := strongRefBig(big.NewInt(part), big.NewInt(whole))
					if got := gpbft.IsStrongQuorum(part, whole); got != want {
						chk.Violation("IsStrongQuorum-large-inexact", fmt.Sprintf("IsStrongQuorum(%d,%d)=%v want %v", part, whole, got, want),
							map[string]any{"fn": "IsStrongQuorum", "part": part, "whole": whole})
						return
					}
				}
			}
		}
	}
}

// ---- part 4: power-table scaling and three-way agreement ----------------------------------------------

// 1, 3, 10, 2^16-1, 2^16, 2^32, 2^48+1, 2^56, 2^62, 2^63-1, 2^64, 10^30 (word-size boundaries matter for any fixed-width shortcut)
var magnitudes = []string{"1", "3", "10", "65535", "65536", "4294967296", "281474976710657", "72057594037927936", "4611686018427387904", "9223372036854775807", "18446744073709551616", "1000000000000000000000000000000"}

func scaling(thorough bool) {
	keys := vfix.NewKeys(8)
	maxN := 3
	if thorough {
		maxN = 4
	}
	var tables [][]int
	var rec func(cur []int, n int)
	rec = func(cur []int, n int) {
		if len(cur) == n {
			tables = append(tables, append([]int{}, cur...))
			return
		}
		for m := range magnitudes {
			rec(append(cur, m), n)
		}
	}
	for n := 1; n <= maxN; n++ {
		rec(nil, n)
	}
	type job struct{ t []int }
	jobs := make(chan job, 64)
	var wg sync.WaitGroup
	var mu sync.Mutex
	stop := atomic.Bool{}
	for wk := 0; wk < runtime.NumCPU(); wk++ {
		wg.Add(1)
		go func() {
			defer wg.Done()
			for j := range jobs {
				if stop.Load() {
					continue
				}
				if fp, what, rep := scaleCase(keys, j.t); fp != "" {
					mu.Lock()
					chk.Violation(fp, what, rep)
					mu.Unlock()
					stop.Store(true)
				}
			}
		}()
	}
	for _, t := range tables {
		jobs <- job{t}
	}
	close(jobs)
	wg.Wait()
	chk.Add("power_tables", int64(len(tables)))
}

func scaleCase(keys vfix.Keys, t []int) (string, string, any) {
	rep := map[string]any{"fn": "scaling", "magnitudes": t}
	var entries gpbft.PowerEntries
	total := new(big.Int)
	for i, m := range t {
		p := vfix.BigPow(magnitudes[m])
		entries = append(entries, keys.Entry(uint64(i+1), p, i))
		total.Add(total, p.Int)
	}
	pt := gpbft.NewPowerTable()
	if err := pt.Add(entries...); err != nil {
		return "table-add-error", fmt.Sprintf("PowerTable.Add(%v): %v", t, err), rep
	}
	canon := vfix.Canon(entries)
	scaled, stotal, err := canon.Scaled()
	if err != nil {
		return "scaled-error", err.Error(), rep
	}
	chk.Add("evaluations", 1)
	chk.Distinct(fmt.Sprint("s", t))
	var sum int64
	for i := range canon {
		if pt.Entries[i].ID != canon[i].ID {
			return "table-order", fmt.Sprintf("table %v: PowerTable order differs from canonical order", t), rep
		}
		want := new(big.Int).Div(new(big.Int).Mul(big.NewInt(65535), canon[i].Power.Int), total).Int64()
		if scaled[i] != want || pt.ScaledPower[i] != want {
			return "scaled-power-inexact", fmt.Sprintf("table %v entry %d: Scaled()=%d PowerTable=%d want floor(65535*p/total)=%d", t, i, scaled[i], pt.ScaledPower[i], want), rep
		}
		if scaled[i] > 65535 || scaled[i] < 0 {
			return "scaled-power-out-of-range", fmt.Sprintf("table %v entry %d: %d", t, i, scaled[i]), rep
		}
		if i > 0 && scaled[i] > scaled[i-1] {
			return "scaled-order-not-preserved", fmt.Sprintf("table %v: scaled powers %v not non-increasing in canonical order", t, scaled), rep
		}
		sum += scaled[i]
	}
	if sum > 65535 || stotal != sum || pt.ScaledTotal != sum {
		return "scaled-total", fmt.Sprintf("table %v: sum=%d Scaled total=%d PowerTable.ScaledTotal=%d", t, sum, stotal, pt.ScaledTotal), rep
	}
	if err := pt.Validate(); err != nil {
		return "table-validate", fmt.Sprintf("table %v: Validate: %v", t, err), rep
	}
	// the same members joining one call at a time (in the order of the tuple: all orders are enumerated), and joining
	// a copy of the table built so far, must give the same table as one call with everybody
	inc := gpbft.NewPowerTable()
	for k, e := range entries {
		viaCopy := inc.Copy()
		if err := inc.Add(e); err != nil {
			return "table-add-error", fmt.Sprintf("table %v: incremental Add #%d: %v", t, k, err), rep
		}
		if err := viaCopy.Add(e); err != nil {
			return "table-add-error", fmt.Sprintf("table %v: Add #%d on a copy: %v", t, k, err), rep
		}
		one := gpbft.NewPowerTable()
		if err := one.Add(entries[:k+1]...); err != nil {
			return "table-add-error", fmt.Sprintf("table %v: Add of the first %d: %v", t, k+1, err), rep
		}
		for name, x := range map[string]*gpbft.PowerTable{"member by member": inc, "onto a copy": viaCopy} {
			if !x.Entries.Equal(one.Entries) || fmt.Sprint(x.ScaledPower) != fmt.Sprint(one.ScaledPower) || x.ScaledTotal != one.ScaledTotal || x.Total.Int.Cmp(one.Total.Int) != 0 {
				return "table-depends-on-how-it-was-built", fmt.Sprintf("table %v after %d members, built %s: scaled %v total %d; built with one call: scaled %v total %d", t, k+1, name, x.ScaledPower, x.ScaledTotal, one.ScaledPower, one.ScaledTotal), rep
			}
			if err := x.Validate(); err != nil {
				return "table-validate", fmt.Sprintf("table %v built %s: Validate: %v", t, name, err), rep
			}
		}
	}
	// three-way agreement on every signer subset
	n := len(canon)
	tcid := vfix.TableCID(canon)
	base := vfix.TipSet("g", 0, tcid)
	chain := vfix.Chain(base, "a", 1, tcid)
	host := &valHost{keys: keys, table: canon}
	part, err := gpbft.NewParticipant(host, gpbft.WithMaxCachedMessagesPerInstance(64))
	if err != nil {
		return "participant", err.Error(), rep
	}
	if err := part.StartInstanceAt(5, time.Unix(0, 0)); err != nil {
		return "participant", err.Error(), rep
	}
	supp := gpbft.SupplementalData{PowerTable: tcid}
	for mask := 1; mask < 1<<n; mask++ {
		var idx []int
		var pw int64
		zero := false
		for i := 0; i < n; i++ {
			if mask&(1<<i) != 0 {
				idx = append(idx, i)
				pw += scaled[i]
				if scaled[i] == 0 {
					zero = true
				}
			}
		}
		want := strongRef(pw, sum) && !zero
		rep := map[string]any{"fn": "agreement", "magnitudes": t, "signers": idx}
		chk.Add("evaluations", 1)
		// certificate validator
		cert := keys.Cert(vfix.Network, 5, chain, canon, canon, idx)
		_, _, _, cerr := certs.ValidateFinalityCertificates(keys, vfix.Network, vfix.CloneEntries(canon), 5, base, cert)
		if (cerr == nil) != want {
			return "cert-validator-threshold", fmt.Sprintf("table %v scaled %v signers %v (power %d of %d): certificate validator accepts=%v, exact 2/3 rule says %v (%v)", t, scaled, idx, pw, sum, cerr == nil, want, cerr), rep
		}
		// message validator: DECIDE justified by COMMIT quorum of these signers, sent by the strongest member
		if scaled[0] > 0 {
			jp := gpbft.Payload{Instance: 5, Round: 0, Phase: gpbft.COMMIT_PHASE, SupplementalData: supp, Value: chain}
			j := keys.Justify(vfix.Network, canon, jp, idx)
			mp := gpbft.Payload{Instance: 5, Round: 0, Phase: gpbft.DECIDE_PHASE, SupplementalData: supp, Value: chain}
			sig, _ := keys.Sign(context.Background(), canon[0].PubKey, mp.MarshalForSigning(vfix.Network))
			msg := &gpbft.GMessage{Sender: canon[0].ID, Vote: mp, Signature: sig, Justification: j}
			_, verr := part.ValidateMessage(context.Background(), msg)
			if (verr == nil) != want {
				return "message-validator-threshold", fmt.Sprintf("table %v scaled %v signers %v (power %d of %d): message validator accepts=%v, exact 2/3 rule says %v (%v)", t, scaled, idx, pw, sum, verr == nil, want, verr), rep
			}
		}
		// tally
		q := gpbft.VerifNewQuorumState(pt)
		for _, i := range idx {
			q.Receive(canon[i].ID, chain, []byte{byte(i)})
		}
		if got := q.HasStrongQuorumFor(chain.Key()); got != strongRef(pw, sum) {
			return "tally-threshold", fmt.Sprintf("table %v scaled %v voters %v: tally strong=%v want %v", t, scaled, idx, got, strongRef(pw, sum)), rep
		}
		if qr, ok := q.FindStrongQuorumFor(chain.Key()); ok {
			var qp int64
			for _, s := range qr.Signers {
				if scaled[s] == 0 {
					return "tally-quorum-zero-power-signer", fmt.Sprintf("table %v: FindStrongQuorumFor returned zero-power signer %d", t, s), rep
				}
				qp += scaled[s]
			}
			if !strongRef(qp, sum) {
				return "tally-quorum-result-weak", fmt.Sprintf("table %v voters %v: FindStrongQuorumFor returned signers %v with power %d of %d", t, idx, qr.Signers, qp, sum), rep
			}
		}
	}
	return "", "", nil
}

// valHost is the minimal gpbft.Host a validating (never started) participant needs.
type valHost struct {
	keys  vfix.Keys
	table gpbft.PowerEntries
}

func (h *valHost) GetProposal(context.Context, uint64) (*gpbft.SupplementalData, *gpbft.ECChain, error) {
	return nil, nil, fmt.Errorf("not used")
}
func (h *valHost) GetCommittee(_ context.Context, _ uint64) (*gpbft.Committee, error) {
	pt := vfix.PowerTable(h.table)
	agg, err := h.keys.Aggregate(pt.Entries.PublicKeys())
	if err != nil {
		return nil, err
	}
	return &gpbft.Committee{PowerTable: pt, Beacon: []byte("beacon"), AggregateVerifier: agg}, nil
}
func (h *valHost) NetworkName() gpbft.NetworkName                      { return vfix.Network }
func (h *valHost) RequestBroadcast(*gpbft.MessageBuilder) error        { return nil }
func (h *valHost) RequestRebroadcast(gpbft.Instant) error              { return nil }
func (h *valHost) Time() time.Time                                     { return time.Unix(0, 0) }
func (h *valHost) SetAlarm(time.Time)                                  {}
func (h *valHost) Verify(pk gpbft.PubKey, msg, sig []byte) error       { return h.keys.Verify(pk, msg, sig) }
func (h *valHost) Aggregate(p []gpbft.PubKey) (gpbft.Aggregate, error) { return h.keys.Aggregate(p) }
func (h *valHost) ReceiveDecision(context.Context, *gpbft.Justification) (time.Time, error) {
	return time.Time{}, nil
}

var _ = gbig.Zero

func main() {
	prop := flag.String("prop", "C08", "")
	replay := flag.String("replay", "", "")
	flag.Parse()
	_ = prop
	chk = vcommon.NewCheck("C08", "exploration")
	if *replay != "" {
		fmt.Println("replay: re-running the full enumeration (it is exhaustive and deterministic)")
	}
	thorough := vcommon.Thorough()
	predicates(65535)
	chk.Sample(map[string]any{"fn": "IsStrongQuorum", "part": 43690, "whole": 65535})
	if chk.Violations() == 0 {
		tally(thorough)
		chk.Sample(map[string]any{"fn": "tally", "whole": 48, "support": 31, "other": 9})
	}
	if chk.Violations() == 0 {
		largeBand()
	}
	if chk.Violations() == 0 {
		scaling(thorough)
		chk.Sample(map[string]any{"fn": "scaling+agreement", "magnitudes": []string{"1", "65536", "10^30"}, "all signer subsets": true})
	}
	chk.Set("exhaustive", chk.Violations() == 0)
	chk.Set("rule", "all (whole<=65535, part<=whole) pairs for IsStrongQuorum/hasWeakQuorum/intersection; all (whole,support,other) triples for small whole plus the 2/3 and 1/3 boundary bands for every whole through a real quorumState; int64 bands at every power of two up to 2^61; all power tables with n<=3 (thorough: 4) over 12 magnitudes (1 .. 10^30 incl. 2^32, 2^48, 2^56, 2^62, 2^63-1, 2^64) with every signer subset through certificate validator, message validator and tally; distinct_nontrivial counts distinct tally triples and power tables")
	chk.Assume("exact reference arithmetic: 3*part >= 2*whole in int64 (no overflow below 2^61) and math/big")
	chk.Assume("whole >= 2^62 excluded: 2*whole overflows int64 there; scaled totals never exceed 65535 (checked in part 4)")
	if chk.Violations() > 0 {
		os.Stdout.Sync()
	}
	chk.Finish()
}
