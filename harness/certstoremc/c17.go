package main

import (
	"bufio"
	"bytes"
	"encoding/binary"
	"fmt"

	"github.com/filecoin-project/go-f3/certs"
	"github.com/filecoin-project/go-f3/certstore"
	"github.com/filecoin-project/go-f3/gpbft"
	"github.com/filecoin-project/go-f3/internal/verif/vcommon"
	"github.com/filecoin-project/go-f3/internal/verif/vfix"
	"github.com/filecoin-project/go-f3/manifest"
	"github.com/ipfs/go-cid"
	"github.com/ipfs/go-datastore"
	dssync "github.com/ipfs/go-datastore/sync"
	"github.com/multiformats/go-multihash"
	"golang.org/x/crypto/blake2b"
)

type c17store struct {
	First   uint64 `json:"first"`
	Length  int    `json:"length"`
	Pattern []int  `json:"delta_shapes"`
}

func buildStore(c c17store, f uint64) (*certstore.Store, *refStore) {
	ds := dssync.MutexWrap(datastore.NewMapDatastore())
	st, err := certstore.CreateStore(bg, ds, c.First, table0())
	if err != nil {
		panic(err)
	}
	if f > 0 {
		st.VerifSetPowerTableFrequency(f)
	}
	ref := &refStore{exists: true, first: c.First, tables: []gpbft.PowerEntries{table0()}}
	for i := 0; i < c.Length; i++ {
		cur := ref.latestTable()
		next := applyShape(cur, c.Pattern[i%len(c.Pattern)], i)
		crt := honestCert(ref.next(), ref.head(), cur, next)
		if err := st.Put(bg, crt); err != nil {
			panic(err)
		}
		ref.certs = append(ref.certs, crt)
		ref.tables = append(ref.tables, next)
	}
	return st, ref
}

// splitBlocks parses the length-prefixed blocks of a snapshot.
func splitBlocks(b []byte) [][]byte {
	var out [][]byte
	for len(b) > 0 {
		n, k := binary.Uvarint(b)
		if k <= 0 || uint64(len(b)-k) < n {
			panic("bad snapshot in harness")
		}
		out = append(out, b[k:k+int(n)])
		b = b[k+int(n):]
	}
	return out
}

func joinBlocks(blocks [][]byte) []byte {
	var out bytes.Buffer
	for _, bl := range blocks {
		var tmp [10]byte
		n := binary.PutUvarint(tmp[:], uint64(len(bl)))
		out.Write(tmp[:n])
		out.Write(bl)
	}
	return out.Bytes()
}

func importInto(snap []byte, m *manifest.Manifest, f uint64) (ds datastore.Batching, err error, panicked any) {
	ds = dssync.MutexWrap(datastore.NewMapDatastore())
	defer func() {
		if r := recover(); r != nil {
			panicked = r
		}
	}()
	rd := bufio.NewReader(bytes.NewReader(snap))
	if f == 0 {
		err = certstore.ImportSnapshotToDatastore(bg, rd, ds, m)
	} else {
		err = certstore.VerifImportSnapshot(bg, rd, ds, m, f)
	}
	return
}

func headerBlock(h certstore.SnapshotHeader) []byte {
	var b bytes.Buffer
	if err := h.MarshalCBOR(&b); err != nil {
		panic(err)
	}
	return b.Bytes()
}

func certBlock(c *certs.FinalityCertificate) []byte { return certBytes(c) }

func runC17(chk *vcommon.Check, thorough bool) {
	maxLen := 7
	if thorough {
		maxLen = 9
	}
	patterns := [][]int{{0}, {1}, {1, 2, 3, 4}, {2, 0, 3}, {4, 1}}
	var evals, rejected int64
	for _, first := range []uint64{0, 3} {
		for length := 1; length <= maxLen; length++ {
			for _, pat := range patterns {
				sc := c17store{first, length, pat}
				st, ref := buildStore(sc, freq)
				for end := first; end < first+uint64(length); end++ {
					var buf bytes.Buffer
					digest, hdr, err := st.ExportSnapshot(bg, end, &buf)
					rep := map[string]any{"kind": "c17", "store": sc, "end": end}
					if err != nil {
						chk.Violation("export-failed", fmt.Sprintf("%+v export to %d: %v", sc, end, err), rep)
						return
					}
					snap := buf.Bytes()
					evals++
					// digest = blake2b-256 of the exported bytes
					sum := blake2b.Sum256(snap)
					mh, _ := multihash.Encode(sum[:], multihash.BLAKE2B_MIN+31)
					if want := cid.NewCidV1(cid.Raw, mh); digest != want {
						chk.Violation("export-digest-mismatch", fmt.Sprintf("%+v export to %d: digest %s is not the blake2b-256 of the exported bytes (%s)", sc, end, digest, want), rep)
						return
					}
					if hdr.FirstInstance != first || hdr.LatestInstance != end {
						chk.Violation("export-header-wrong", fmt.Sprintf("%+v export to %d: header %+v", sc, end, hdr), rep)
						return
					}
					// ---- round trip
					refEnd := ref.clone()
					refEnd.certs = refEnd.certs[:end-first+1]
					refEnd.tables = refEnd.tables[:end-first+2]
					m := &manifest.Manifest{InitialInstance: first, InitialPowerTable: vfix.TableCID(table0())}
					for _, mm := range []*manifest.Manifest{nil, m} {
						ds, err, p := importInto(snap, mm, freq)
						if err != nil || p != nil {
							chk.Violation("import-of-honest-snapshot-fails", fmt.Sprintf("%+v export to %d: import failed: %v %v", sc, end, err, p), rep)
							return
						}
						st2, err := certstore.OpenStore(bg, ds)
						if err != nil {
							chk.Violation("import-of-honest-snapshot-fails", fmt.Sprintf("%+v export to %d: OpenStore after import: %v", sc, end, err), rep)
							return
						}
						st2.VerifSetPowerTableFrequency(freq)
						if got, want := observe(st2, first, true), refEnd.refObserve(true); got != want {
							chk.Violation("imported-store-differs:"+firstDiffKind(got, want), fmt.Sprintf("%+v export to %d: imported store differs from the exporter\n--- got\n%s--- want\n%s", sc, end, clip(got), clip(want)), rep)
							return
						}
						// the imported store must keep working: two more valid certificates, full comparison, restart
						ext := refEnd.clone()
						for x := 0; x < 2; x++ {
							cur := ext.latestTable()
							nx := applyShape(cur, 1+x, 60+x)
							cc := honestCert(ext.next(), ext.head(), cur, nx)
							if err := st2.Put(bg, cc); err != nil {
								chk.Violation("imported-store-does-not-keep-working", fmt.Sprintf("%+v export to %d: Put(%d) on the imported store: %v", sc, end, cc.GPBFTInstance, err), rep)
								return
							}
							ext.certs = append(ext.certs, cc)
							ext.tables = append(ext.tables, nx)
						}
						if got, want := observe(st2, first, true), ext.refObserve(true); got != want {
							chk.Violation("imported-store-does-not-keep-working", fmt.Sprintf("%+v export to %d: after two more puts the imported store differs from the reference (%s)\n--- got\n%s--- want\n%s", sc, end, firstDiffKind(got, want), clip(got), clip(want)), rep)
							return
						}
						st3, err := certstore.OpenStore(bg, ds)
						if err == nil {
							st3.VerifSetPowerTableFrequency(freq)
							if got, want := observe(st3, first, true), ext.refObserve(true); got != want {
								err = fmt.Errorf("differs from the reference (%s)", firstDiffKind(got, want))
							}
						}
						if err != nil {
							chk.Violation("imported-store-does-not-keep-working", fmt.Sprintf("%+v export to %d: reopening the imported store after two more puts: %v", sc, end, err), rep)
							return
						}
					}
					chk.Distinct(fmt.Sprintf("rt%d/%d/%v/%d", first, length, pat, end))
					// ---- corruptions (only on full exports of each store to bound the work, all end points in thorough)
					if end != first+uint64(length)-1 && !thorough {
						continue
					}
					blocks := splitBlocks(snap)
					mustReject := func(name string, data []byte, mm *manifest.Manifest) bool {
						evals++
						_, err, p := importInto(data, mm, freq)
						if p != nil {
							chk.Violation("import-panics:"+name, fmt.Sprintf("%+v export to %d, corruption %s: import panicked: %v", sc, end, name, p), map[string]any{"kind": "c17", "store": sc, "end": end, "corruption": name})
							return false
						}
						if err == nil {
							chk.Violation("malformed-snapshot-accepted:"+name, fmt.Sprintf("%+v export to %d: snapshot with corruption %q was imported without error", sc, end, name), map[string]any{"kind": "c17", "store": sc, "end": end, "corruption": name})
							return false
						}
						rejected++
						return true
					}
					// every truncation
					for cut := 0; cut < len(snap); cut++ {
						if !mustReject("truncated", snap[:cut], nil) {
							return
						}
					}
					nb := len(blocks)
					for k := 1; k < nb; k++ {
						// dropped certificate block (the last one dropped = header promises more)
						dropped := append(append([][]byte{}, blocks[:k]...), blocks[k+1:]...)
						if !mustReject("dropped-block", joinBlocks(dropped), nil) {
							return
						}
						dup := append(append(append([][]byte{}, blocks[:k+1]...), blocks[k]), blocks[k+1:]...)
						if !mustReject("duplicated-block", joinBlocks(dup), nil) {
							return
						}
						if k+1 < nb {
							sw := append([][]byte{}, blocks...)
							sw[k], sw[k+1] = sw[k+1], sw[k]
							if !mustReject("swapped-blocks", joinBlocks(sw), nil) {
								return
							}
						}
					}
					// surplus certificate: the valid successor of the last exported one, and a repeat of the last
					if int(end-first)+1 < len(ref.certs) {
						if !mustReject("surplus-successor", joinBlocks(append(append([][]byte{}, blocks...), certBlock(ref.certs[end-first+1]))), nil) {
							return
						}
					}
					// an empty block anywhere after the header (at the very end it must not pass for the end of the
					// stream), alone or followed by surplus certificates / garbage
					for k := 1; k <= nb; k++ {
						ins := append(append(append([][]byte{}, blocks[:k]...), []byte{}), blocks[k:]...)
						if !mustReject("inserted-empty-block", joinBlocks(ins), nil) {
							return
						}
					}
					{
						tail := append(append([][]byte{}, blocks...), []byte{})
						if int(end-first)+1 < len(ref.certs) {
							if !mustReject("empty-block-then-surplus", joinBlocks(append(append([][]byte{}, tail...), certBlock(ref.certs[end-first+1]))), nil) {
								return
							}
						}
						if !mustReject("empty-block-then-repeat", joinBlocks(append(append([][]byte{}, tail...), blocks[nb-1])), nil) {
							return
						}
						if !mustReject("empty-block-then-garbage", append(joinBlocks(tail), 0xde, 0xad, 0xbe, 0xef), nil) {
							return
						}
					}
					// header disagreements
					for _, hm := range []struct {
						name string
						h    certstore.SnapshotHeader
					}{
						{"header-first+1", certstore.SnapshotHeader{Version: 1, FirstInstance: first + 1, LatestInstance: end, InitialPowerTable: table0()}},
						{"header-latest+1", certstore.SnapshotHeader{Version: 1, FirstInstance: first, LatestInstance: end + 1, InitialPowerTable: table0()}},
						{"header-other-table", certstore.SnapshotHeader{Version: 1, FirstInstance: first, LatestInstance: end, InitialPowerTable: otherTable()}},
					} {
						bl := append([][]byte{headerBlock(hm.h)}, blocks[1:]...)
						if !mustReject(hm.name, joinBlocks(bl), nil) {
							return
						}
					}
					if end > first {
						h := certstore.SnapshotHeader{Version: 1, FirstInstance: first, LatestInstance: end - 1, InitialPowerTable: table0()}
						if !mustReject("header-latest-1", joinBlocks(append([][]byte{headerBlock(h)}, blocks[1:]...)), nil) {
							return
						}
					}
					// the header's initial table restated (entries permuted / one entry listed twice) while the manifest
					// pins the genuine table
					{
						pinned := &manifest.Manifest{InitialInstance: first, InitialPowerTable: vfix.TableCID(table0())}
						t0 := table0()
						rev := make(gpbft.PowerEntries, len(t0))
						for i := range t0 {
							rev[len(t0)-1-i] = t0[i]
						}
						swp := append(gpbft.PowerEntries{}, t0...)
						swp[0], swp[1] = swp[1], swp[0]
						dupl := append(append(gpbft.PowerEntries{}, t0...), t0[len(t0)-1])
						dupf := append(gpbft.PowerEntries{t0[0]}, t0...)
						for _, hm := range []struct {
							name string
							t    gpbft.PowerEntries
						}{{"header-table-reversed", rev}, {"header-table-swapped", swp}, {"header-table-duplicate-last", dupl}, {"header-table-duplicate-first", dupf}} {
							h := certstore.SnapshotHeader{Version: 1, FirstInstance: first, LatestInstance: end, InitialPowerTable: hm.t}
							if !mustReject(hm.name+"-vs-manifest", joinBlocks(append([][]byte{headerBlock(h)}, blocks[1:]...)), pinned) {
								return
							}
						}
					}
					// manifest mismatches
					if !mustReject("manifest-other-initial-instance", snap, &manifest.Manifest{InitialInstance: first + 1}) {
						return
					}
					if !mustReject("manifest-other-initial-table", snap, &manifest.Manifest{InitialInstance: first, InitialPowerTable: vfix.TableCID(otherTable())}) {
						return
					}
					// altered deltas
					for k := 0; k <= int(end-first); k++ {
						c := *ref.certs[k]
						cur := ref.tables[k]
						c.PowerTableDelta = certs.MakePowerTableDiff(cur, applyShape(ref.tables[k+1], 1, 99))
						alt := append([][]byte{}, blocks...)
						alt[k+1] = certBlock(&c)
						last := k == int(end-first)
						name := "altered-delta"
						if !last {
							name = "altered-delta-intermediate"
						}
						evals++
						_, err, p := importInto(joinBlocks(alt), nil, freq)
						if p != nil {
							chk.Violation("import-panics:"+name, fmt.Sprintf("%+v: %v", sc, p), rep)
							return
						}
						if err == nil {
							chk.Violation("snapshot-with-wrong-delta-accepted:"+name, fmt.Sprintf("%+v export to %d: certificate %d's delta altered so that it no longer reproduces its committed power table, yet the snapshot was imported", sc, end, c.GPBFTInstance), map[string]any{"kind": "c17", "store": sc, "end": end, "corruption": name, "cert": k})
							return
						}
						rejected++
					}
					// compensated alteration: cert k gets a wrong delta, cert k+1's delta is recomputed from the wrong
					// table to the right one, so only the table committed by cert k is not reproduced.
					for k := 0; k+1 <= int(end-first); k++ {
						ck, ck1 := *ref.certs[k], *ref.certs[k+1]
						wrong := applyShape(ref.tables[k+1], 1, 99)
						ck.PowerTableDelta = certs.MakePowerTableDiff(ref.tables[k], wrong)
						ck1.PowerTableDelta = certs.MakePowerTableDiff(wrong, ref.tables[k+2])
						alt := append([][]byte{}, blocks...)
						alt[k+1], alt[k+2] = certBlock(&ck), certBlock(&ck1)
						evals++
						_, err, p := importInto(joinBlocks(alt), nil, freq)
						if p != nil {
							chk.Violation("import-panics:compensated-delta", fmt.Sprintf("%+v: %v", sc, p), rep)
							return
						}
						if err == nil {
							chk.Violation("snapshot-with-wrong-intermediate-table-accepted", fmt.Sprintf("%+v export to %d: certificate %d's delta does not reproduce its committed power table (compensated by certificate %d), yet the snapshot was imported", sc, end, ck.GPBFTInstance, ck1.GPBFTInstance), map[string]any{"kind": "c17", "store": sc, "end": end, "corruption": "compensated-delta", "cert": k})
							break
						}
						rejected++
					}
				}
			}
		}
	}
	if chk.Violations() == 0 {
		realFrequencySnapshot(chk)
	}
	if chk.Violations() == 0 {
		largeCommitteeSnapshot(chk)
	}
	chk.Set("evaluations", evals)
	chk.Set("corruptions_rejected", rejected)
	chk.Set("exhaustive", true)
	chk.Sample(c17store{3, 5, []int{1, 2, 3, 4}})
}

// realFrequencySnapshot exports/imports a store of 1445 certificates with the production frequency.
func realFrequencySnapshot(chk *vcommon.Check) {
	sc := c17store{0, 1445, []int{0, 0, 1, 0, 4}}
	st, ref := buildStore(sc, 0)
	var buf bytes.Buffer
	if _, _, err := st.ExportLatestSnapshot(bg, &buf); err != nil {
		chk.Violation("export-failed", err.Error(), map[string]any{"kind": "c17-real"})
		return
	}
	ds, err, p := importInto(buf.Bytes(), nil, 0)
	if err != nil || p != nil {
		chk.Violation("import-of-honest-snapshot-fails", fmt.Sprintf("real-frequency store: %v %v", err, p), map[string]any{"kind": "c17-real"})
		return
	}
	st2, err := certstore.OpenStore(bg, ds)
	if err != nil {
		chk.Violation("import-of-honest-snapshot-fails", fmt.Sprintf("real-frequency store: OpenStore: %v", err), map[string]any{"kind": "c17-real"})
		return
	}
	for _, i := range []uint64{0, 1, 700, 1439, 1440, 1441, 1444, 1445} {
		a, e1 := st2.GetPowerTable(bg, i)
		if e1 != nil || !a.Equal(ref.tables[i]) {
			chk.Violation("imported-store-differs:pt", fmt.Sprintf("real-frequency store: power table %d after import: %v", i, e1), map[string]any{"kind": "c17-real", "instance": i})
			return
		}
	}
	if l := st2.Latest(); l == nil || l.GPBFTInstance != 1444 {
		chk.Violation("imported-store-differs:latest", "real-frequency store: latest after import", map[string]any{"kind": "c17-real"})
	}
	chk.Set("real_frequency_roundtrip", true)
}

// largeCommitteeSnapshot: a store whose initial power table is as large as the codecs allow (8000 members with
// 48-byte keys: the header block alone is several hundred KiB) must export and import like any other.
func largeCommitteeSnapshot(chk *vcommon.Check) {
	var big gpbft.PowerEntries
	for i, e := range table0() {
		e.Power = gpbft.NewStoragePower(int64(1_000_000 * (3 - i)))
		big = append(big, e)
	}
	for id := uint64(100); len(big) < 8000; id++ {
		key := bytes.Repeat([]byte{byte(id), byte(id >> 8), 0x5a}, 16)
		big = append(big, gpbft.PowerEntry{ID: gpbft.ActorID(id), Power: gpbft.NewStoragePower(1), PubKey: key})
	}
	big = vfix.Canon(big)
	rep := map[string]any{"kind": "c17-large", "members": len(big)}
	st, err := certstore.CreateStore(bg, dssync.MutexWrap(datastore.NewMapDatastore()), 0, big)
	if err != nil {
		chk.Violation("export-failed", "large committee: CreateStore: "+err.Error(), rep)
		return
	}
	tc := vfix.TableCID(big)
	head := vfix.TipSet("gen", 0, tc)
	var crts []*certs.FinalityCertificate
	for i := uint64(0); i < 2; i++ {
		c := &gpbft.ECChain{TipSets: []*gpbft.TipSet{head, vfix.TipSet("L", head.Epoch+1, tc)}}
		// (signatures are not what snapshots are about: neither the store nor the importer verifies them)
		j := &gpbft.Justification{Vote: gpbft.Payload{Instance: i, Phase: gpbft.DECIDE_PHASE, SupplementalData: gpbft.SupplementalData{PowerTable: tc}, Value: c}, Signers: vfix.Bitfield([]int{0, 1, 2}), Signature: bytes.Repeat([]byte{7}, 96)}
		crt, err := certs.NewFinalityCertificate(certs.MakePowerTableDiff(big, big), j)
		if err != nil {
			chk.Violation("export-failed", "large committee: NewFinalityCertificate: "+err.Error(), rep)
			return
		}
		if err := st.Put(bg, crt); err != nil {
			chk.Violation("export-failed", "large committee: Put: "+err.Error(), rep)
			return
		}
		crts = append(crts, crt)
		head = c.Head()
	}
	var buf bytes.Buffer
	if _, _, err := st.ExportLatestSnapshot(bg, &buf); err != nil {
		chk.Violation("export-failed", "large committee: "+err.Error(), rep)
		return
	}
	ds, err, p := importInto(buf.Bytes(), &manifest.Manifest{InitialInstance: 0, InitialPowerTable: tc}, 0)
	if err != nil || p != nil {
		chk.Violation("import-of-honest-snapshot-fails", fmt.Sprintf("store with %d members (snapshot of %d bytes): import failed: %v %v", len(big), buf.Len(), err, p), rep)
		return
	}
	st2, err := certstore.OpenStore(bg, ds)
	if err != nil {
		chk.Violation("import-of-honest-snapshot-fails", fmt.Sprintf("store with %d members: OpenStore after import: %v", len(big), err), rep)
		return
	}
	for i := uint64(0); i <= 2; i++ {
		if a, e1 := st2.GetPowerTable(bg, i); e1 != nil || !a.Equal(big) {
			chk.Violation("imported-store-differs:pt", fmt.Sprintf("store with %d members: power table %d after import: %v", len(big), i, e1), rep)
			return
		}
	}
	if l := st2.Latest(); l == nil || l.GPBFTInstance != 1 {
		chk.Violation("imported-store-differs:latest", "large committee: latest after import", rep)
	}
	chk.Set("large_committee_roundtrip_bytes", buf.Len())
}
