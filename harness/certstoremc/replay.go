package main

import (
	"encoding/json"
	"fmt"
	"os"
)

// doReplay re-executes a C09 history artefact as a plain loop (C10/C17 artefacts name the failing case;
// their enumeration is deterministic and is re-run by the check itself).
func doReplay(path string) int {
	raw, err := os.ReadFile(path)
	if err != nil {
		fmt.Fprintln(os.Stderr, err)
		return 2
	}
	var doc struct {
		Property string `json:"property"`
		Replay   struct {
			Kind    string   `json:"kind"`
			History []string `json:"history"`
		} `json:"replay"`
	}
	if err := json.Unmarshal(raw, &doc); err != nil {
		fmt.Fprintln(os.Stderr, err)
		return 2
	}
	if doc.Replay.Kind != "c09" {
		fmt.Printf("artefact of kind %q: run ./check %s to re-run the deterministic enumeration\n", doc.Replay.Kind, doc.Property)
		return 0
	}
	l := build(doc.Replay.History)
	if l.fail != "" {
		fmt.Printf("VIOLATION property=%s replay=%s\n  %s: %s\n", doc.Property, path, l.fp, l.fail)
		return 1
	}
	fmt.Println("no violation on this tree")
	return 0
}
