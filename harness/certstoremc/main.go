// certstoremc — C09 (store vs reference model, BFS over operation histories), C10 (crash atomicity at
// datastore-write granularity) and C17 (snapshot export/import) on the real certstore.Store.
package main

import (
	"flag"
	"fmt"
	"os"

	"github.com/filecoin-project/go-f3/internal/verif/vcommon"
)

func main() {
	prop := flag.String("prop", "", "C09, C10 or C17")
	replay := flag.String("replay", "", "replay artefact")
	flag.Parse()
	thorough := vcommon.Thorough()
	if *replay != "" {
		os.Exit(doReplay(*replay))
	}
	switch *prop {
	case "C09":
		chk := vcommon.NewCheck("C09", "model_checking")
		runC09(chk, thorough)
		chk.Set("rule", "breadth-first search over operation histories (create/open/open-or-create variants, put x {5 valid delta shapes, duplicate same/different, gap, stale, wrong delta, bottom, emptying delta}, subscribe/receive/unsubscribe) on the real Store over an in-memory datastore with checkpoint frequency 3; a state is the history reaching it, deduplicated on (reference state, subscription state); after every step every observable (Get/GetRange/Latest/GetPowerTable first-1..latest+2) is compared with the reference model; plus a linear history across the real 1440 boundary")
		chk.Assume("sequential histories (concurrent readers/writers are not explored in this check); in-memory map datastore; checkpoint frequency lowered through an injected accessor")
		chk.Finish()
	case "C10":
		chk := vcommon.NewCheck("C10", "fault_enumeration")
		runC10(chk, thorough)
		chk.Set("rule", "for every history (first in {0,4}, up to 4 (thorough 6) committed puts over delta shapes {none, re-weight, remove}) and every final operation (create, put with each of 5 shapes incl. checkpoint-crossing puts, wipe): every prefix of the recorded datastore Put/Delete log of the final operation is materialised and reopened with OpenStore / OpenOrCreateStore / CreateStore; distinct_nontrivial counts distinct (operation, history length, cut, variant, before/after) classes")
		chk.Assume("crash = the process stops between two datastore writes; each individual datastore write is atomic; in-memory map datastore")
		chk.Finish()
	case "C17":
		chk := vcommon.NewCheck("C17", "exploration")
		runC17(chk, thorough)
		chk.Set("rule", "stores: first in {0,3} x length 1..7 (9) x 5 delta-shape patterns, checkpoint frequency 3, every export end point round-tripped with and without manifest; on full exports (thorough: all) every byte truncation, every dropped/duplicated/swapped block, surplus certificate, an empty block at every position (alone, then surplus / repeat / garbage), header and manifest disagreements (incl. the header table permuted or with a duplicated entry against a pinning manifest), altered deltas (final, intermediate, compensated); one 1445-certificate store with the production frequency; one store with 8000 members")
		chk.Assume("in-memory datastores; snapshots produced by the repository's own exporter")
		chk.Finish()
	default:
		fmt.Fprintln(os.Stderr, "certstoremc: -prop must be C09, C10 or C17")
		os.Exit(2)
	}
}
