package main

import (
	"bytes"
	"context"
	"crypto/sha256"
	"errors"
	"fmt"
	"strings"
	"time"

	"github.com/filecoin-project/go-f3/certs"
	"github.com/filecoin-project/go-f3/certstore"
	"github.com/filecoin-project/go-f3/gpbft"
	"github.com/filecoin-project/go-f3/internal/verif/vcommon"
	"github.com/filecoin-project/go-f3/internal/verif/vfix"
	"github.com/ipfs/go-datastore"
	dssync "github.com/ipfs/go-datastore/sync"
)

type subModel struct {
	ch      <-chan *certs.FinalityCertificate
	closer  func()
	active  bool
	pending *certs.FinalityCertificate
}

// live is one instantiated system: real store + reference + subscribers.
type live struct {
	ds     datastore.Datastore
	st     *certstore.Store
	ref    *refStore
	subs   []*subModel
	strays bool   // a write failed earlier in this history
	fail   string // first mismatch
	fp     string
}

// failDS lets one chosen write (Put or Delete) of the datastore fail: a transient storage error.
type failDS struct {
	datastore.Datastore
	countdown int // the countdown-th write from now fails; 0 = none
}

func (f *failDS) hit() bool {
	if f.countdown == 0 {
		return false
	}
	f.countdown--
	return f.countdown == 0
}

func (f *failDS) Put(ctx context.Context, k datastore.Key, v []byte) error {
	if f.hit() {
		return errors.New("injected datastore write error")
	}
	return f.Datastore.Put(ctx, k, v)
}

func (f *failDS) Delete(ctx context.Context, k datastore.Key) error {
	if f.hit() {
		return errors.New("injected datastore write error")
	}
	return f.Datastore.Delete(ctx, k)
}

func newLive() *live {
	return &live{ds: &failDS{Datastore: dssync.MutexWrap(datastore.NewMapDatastore())}, ref: &refStore{}}
}

func (l *live) bad(fp, format string, a ...any) {
	if l.fail == "" {
		l.fp, l.fail = fp, fmt.Sprintf(format, a...)
	}
}

func (l *live) setStore(st *certstore.Store) {
	for _, s := range l.subs {
		if s.active {
			s.closer()
		}
	}
	l.subs = nil
	st.VerifSetPowerTableFrequency(freq)
	l.st = st
}

var errBlocked = errors.New("Put blocked")

// put runs Put with a deadlock detector (a writer must never block on subscribers).
func (l *live) put(c *certs.FinalityCertificate) error {
	done := make(chan error, 1)
	go func() { done <- l.st.Put(bg, c) }()
	select {
	case err := <-done:
		return err
	case <-time.After(30 * time.Second):
		return errBlocked
	}
}

func (l *live) tableAt(inst uint64) gpbft.PowerEntries { return l.ref.tables[inst-l.ref.first] }

func (l *live) enabled(op string) bool {
	r := l.ref
	switch {
	case strings.HasPrefix(op, "create:"), strings.HasPrefix(op, "ooc:"), op == "open":
		if op == "ooc:table" {
			return r.exists
		}
		return true
	case op == "sub":
		n := 0
		for _, s := range l.subs {
			if s.active {
				n++
			}
		}
		return l.st != nil && n < 2 && len(l.subs) < 3
	case strings.HasPrefix(op, "recv:"), strings.HasPrefix(op, "unsub:"):
		var k int
		fmt.Sscanf(op[strings.IndexByte(op, ':')+1:], "%d", &k)
		return k < len(l.subs) && (l.subs[k].active || strings.HasPrefix(op, "recv:"))
	case op == "dupsame", op == "dupdiff", op == "dupfirst":
		return l.st != nil && len(r.certs) > 0
	case op == "stale":
		return l.st != nil && r.first > 0
	default:
		return l.st != nil
	}
}

func (l *live) apply(op string) {
	r := l.ref
	switch {
	case strings.HasPrefix(op, "create:"):
		var f uint64
		fmt.Sscanf(op[7:], "%d", &f)
		st, err := certstore.CreateStore(bg, l.ds, f, table0())
		if r.exists {
			if err == nil {
				l.bad("create-over-existing-accepted", "CreateStore on an existing store succeeded")
			}
			return
		}
		if err != nil {
			l.bad("create-failed", "CreateStore(%d): %v", f, err)
			return
		}
		l.ref = &refStore{exists: true, first: f, tables: []gpbft.PowerEntries{table0()}}
		l.setStore(st)
	case strings.HasPrefix(op, "ooc:"):
		arg := op[4:]
		f, tbl := r.first, table0()
		if arg == "table" {
			tbl = otherTable()
		} else {
			fmt.Sscanf(arg, "%d", &f)
		}
		st, err := certstore.OpenOrCreateStore(bg, l.ds, f, tbl)
		switch {
		case !r.exists:
			if err != nil {
				l.bad("open-or-create-failed", "OpenOrCreateStore on an empty datastore: %v", err)
				return
			}
			l.ref = &refStore{exists: true, first: f, tables: []gpbft.PowerEntries{tbl}}
			l.setStore(st)
		case arg == "table" || f != r.first:
			if err == nil {
				l.bad("open-or-create-accepts-mismatch", "OpenOrCreateStore(%s) on a store with first=%d accepted different parameters", arg, r.first)
			}
		default:
			if err != nil {
				l.bad("reopen-failed", "OpenOrCreateStore(same parameters): %v", err)
				return
			}
			l.setStore(st)
		}
	case op == "open":
		st, err := certstore.OpenStore(bg, l.ds)
		if !r.exists {
			if !errors.Is(err, certstore.ErrNotInitialized) {
				l.bad("open-uninitialised", "OpenStore on an empty datastore returned %v", err)
			}
			return
		}
		if err != nil {
			l.bad("reopen-failed", "OpenStore: %v", err)
			return
		}
		l.setStore(st)
	case strings.HasPrefix(op, "put:"):
		var s int
		fmt.Sscanf(op[4:], "%d", &s)
		cur := r.latestTable()
		next := applyShape(cur, s, len(r.certs))
		c := honestCert(r.next(), r.head(), cur, next)
		if err := l.put(c); err != nil {
			l.bad("valid-successor-rejected", "Put(valid successor %d, shape %d): %v", c.GPBFTInstance, s, err)
			return
		}
		l.ref = r.clone()
		l.ref.certs = append(l.ref.certs, c)
		l.ref.tables = append(l.ref.tables, next)
		for _, sm := range l.subs {
			if sm.active {
				sm.pending = c
			}
		}
	case strings.HasPrefix(op, "putfail:"):
		// a valid successor whose k-th datastore write fails: Put must fail and nothing observable may change,
		// now or after reopening (the comparison with the unchanged reference follows every step)
		var k int
		fmt.Sscanf(op[8:], "%d", &k)
		cur := r.latestTable()
		next := applyShape(cur, 1, len(r.certs))
		c := honestCert(r.next(), r.head(), cur, next)
		fd := l.ds.(*failDS)
		fd.countdown = k
		err := l.put(c)
		fired := fd.countdown == 0
		fd.countdown = 0
		if fired {
			// like a crash between two writes, a failed write may leave bytes behind beyond the latest pointer
			// (C10 covers what a reopen makes of them); from here on only first..latest+1 is compared
			l.strays = true
		}
		if fired && err == nil {
			l.bad("put-succeeds-although-a-write-failed", "Put(instance %d) returned nil although its datastore write #%d failed", c.GPBFTInstance, k)
		} else if !fired && err != nil {
			l.bad("valid-successor-rejected", "Put(valid successor %d): %v", c.GPBFTInstance, err)
		} else if !fired {
			// the operation has fewer than k writes: it went through
			l.ref = r.clone()
			l.ref.certs = append(l.ref.certs, c)
			l.ref.tables = append(l.ref.tables, next)
			for _, sm := range l.subs {
				if sm.active {
					sm.pending = c
				}
			}
		}
	case op == "dupsame", op == "dupfirst":
		c := r.certs[len(r.certs)-1]
		if op == "dupfirst" {
			c = r.certs[0]
		}
		if err := l.put(c); err != nil {
			l.bad("duplicate-put-error", "re-submitting stored instance %d: %v", c.GPBFTInstance, err)
		}
	case op == "dupdiff":
		inst := r.next() - 1
		cur := l.tableAt(inst)
		c := honestCert(inst, vfix.TipSet("alt", 1, vfix.TableCID(cur)), cur, applyShape(cur, 2, 77))
		if err := l.put(c); err != nil {
			l.bad("duplicate-put-error", "re-submitting stored instance %d with different content: %v", inst, err)
		}
	case op == "gap":
		cur := r.latestTable()
		c := honestCert(r.next()+1, r.head(), cur, cur)
		if err := l.put(c); err == nil || err == errBlocked {
			l.bad("gap-accepted", "Put(instance %d) accepted although the next expected instance is %d (%v)", c.GPBFTInstance, r.next(), err)
		}
	case op == "stale":
		cur := r.tables[0]
		c := honestCert(r.first-1, genesisTipset(cur), cur, cur)
		if err := l.put(c); err == nil || err == errBlocked {
			l.bad("before-first-accepted", "Put(instance %d) accepted although the store starts at %d", c.GPBFTInstance, r.first)
		}
	case op == "wrongdelta":
		cur := r.latestTable()
		c := honestCert(r.next(), r.head(), cur, applyShape(cur, 1, 5))
		c.PowerTableDelta = certs.MakePowerTableDiff(cur, applyShape(cur, 1, 6))
		if err := l.put(c); err == nil || err == errBlocked {
			l.bad("wrong-delta-accepted", "Put(instance %d) accepted a delta that does not reproduce the committed power table", c.GPBFTInstance)
		}
	case op == "wrongcid":
		// empty delta, but the certificate commits to a different next table
		cur := r.latestTable()
		c := honestCert(r.next(), r.head(), cur, applyShape(cur, 1, 5))
		c.PowerTableDelta = nil
		if err := l.put(c); err == nil || err == errBlocked {
			l.bad("wrong-delta-accepted", "Put(instance %d) accepted an empty delta although the certificate commits to a different power table", c.GPBFTInstance)
		}
	case op == "bottom":
		cur := r.latestTable()
		c := honestCert(r.next(), r.head(), cur, cur)
		c.ECChain = &gpbft.ECChain{}
		if err := l.put(c); err == nil || err == errBlocked {
			l.bad("bottom-accepted", "Put(instance %d) accepted a certificate for the empty chain", c.GPBFTInstance)
		}
	case op == "empty":
		cur := r.latestTable()
		c := honestCert(r.next(), r.head(), cur, cur)
		c.PowerTableDelta = certs.MakePowerTableDiff(cur, nil)
		c.SupplementalData.PowerTable = vfix.TableCID(nil)
		if err := l.put(c); err == nil || err == errBlocked {
			l.bad("emptying-delta-accepted", "Put(instance %d) accepted a delta that empties the power table", c.GPBFTInstance)
		}
	case op == "sub":
		ch, closer := l.st.Subscribe()
		sm := &subModel{ch: ch, closer: closer, active: true}
		if n := len(r.certs); n > 0 {
			sm.pending = r.certs[n-1]
		}
		l.subs = append(l.subs, sm)
	case strings.HasPrefix(op, "recv:"):
		var k int
		fmt.Sscanf(op[5:], "%d", &k)
		sm := l.subs[k]
		select {
		case c, ok := <-sm.ch:
			switch {
			case !ok && sm.active:
				l.bad("subscription-closed-early", "subscriber %d: channel closed while subscribed", k)
			case !ok && sm.pending != nil:
				l.bad("subscription-missed-latest", "subscriber %d: channel closed without delivering the buffered instance %d", k, sm.pending.GPBFTInstance)
			case ok && sm.pending == nil:
				l.bad("subscription-unexpected-value", "subscriber %d received instance %d although nothing new was stored", k, c.GPBFTInstance)
			case ok && !bytes.Equal(certBytes(c), certBytes(sm.pending)):
				l.bad("subscription-not-latest", "subscriber %d received instance %d, not the latest certificate %d", k, c.GPBFTInstance, sm.pending.GPBFTInstance)
			}
			sm.pending = nil
		default:
			if !sm.active {
				l.bad("subscription-not-closed", "subscriber %d: channel not closed after unsubscribe", k)
			} else if sm.pending != nil {
				l.bad("subscription-missed-latest", "subscriber %d has nothing to read although instance %d was stored after its last read", k, sm.pending.GPBFTInstance)
			}
		}
	case strings.HasPrefix(op, "unsub:"):
		var k int
		fmt.Sscanf(op[6:], "%d", &k)
		l.subs[k].closer()
		l.subs[k].closer()       // idempotent
		l.subs[k].active = false // a value already buffered stays readable; afterwards the channel reads as closed
	}
	// full observable comparison after every step
	if l.fail == "" && l.st != nil && l.ref.exists {
		got, want := observe(l.st, l.ref.first, !l.strays), l.ref.refObserve(!l.strays)
		if got != want {
			l.bad("store-differs-from-reference:"+firstDiffKind(got, want), "after %q the store differs from the reference model:\n--- got\n%s--- want\n%s", op, clip(got), clip(want))
		}
	}
}

func clip(s string) string {
	lines := strings.Split(s, "\n")
	for i, ln := range lines {
		if len(ln) > 120 {
			lines[i] = ln[:120] + "…"
		}
	}
	return strings.Join(lines, "\n")
}

// firstDiffKind names the first observation line that differs (get / pt / latest / range).
func firstDiffKind(a, b string) string {
	la, lb := strings.Split(a, "\n"), strings.Split(b, "\n")
	for i := 0; i < len(la) && i < len(lb); i++ {
		if la[i] != lb[i] {
			k := la[i]
			if j := strings.IndexAny(k, "(="); j > 0 {
				k = k[:j]
			}
			return k
		}
	}
	return "length"
}

func (l *live) key() string {
	h := sha256.New()
	r := l.ref
	fmt.Fprintf(h, "%v|%d|%d|%v|%v|", r.exists, r.first, len(r.certs), l.st != nil, l.strays)
	if r.exists {
		h.Write([]byte(entriesStr(r.latestTable())))
		if n := len(r.certs); n > 0 {
			h.Write(certBytes(r.certs[n-1])[:24])
		}
	}
	for _, s := range l.subs {
		p := int64(-1)
		if s.pending != nil {
			p = int64(s.pending.GPBFTInstance)
		}
		fmt.Fprintf(h, "|s%v,%d", s.active, p)
	}
	return string(h.Sum(nil))
}

var c09ops = []string{
	"create:0", "create:3", "ooc:0", "ooc:3", "ooc:table", "open",
	"put:0", "put:1", "put:2", "put:3", "put:4", "putfail:1", "putfail:2", "putfail:3",
	"dupsame", "dupfirst", "dupdiff", "gap", "stale", "wrongdelta", "wrongcid", "bottom", "empty",
	"sub", "recv:0", "recv:1", "unsub:0", "unsub:1",
}

func build(hist []string) *live {
	l := newLive()
	for _, op := range hist {
		l.apply(op)
		if l.fail != "" {
			break
		}
	}
	return l
}

func runC09(chk *vcommon.Check, thorough bool) {
	depth := 6
	if thorough {
		depth = 8
	}
	maxStates := 60000
	if thorough {
		maxStates = 600000
	}
	seen := map[string]bool{build(nil).key(): true}
	frontier := [][]string{nil}
	var states, transitions int64 = 1, 0
	exhaustive := true
	completedDepth := 0
	for d := 1; d <= depth && len(frontier) > 0; d++ {
		var next [][]string
		for _, hist := range frontier {
			base := build(hist)
			for _, op := range c09ops {
				if !base.enabled(op) {
					continue
				}
				h2 := append(append([]string{}, hist...), op)
				l := build(h2)
				transitions++
				if l.fail != "" {
					chk.Violation(l.fp, fmt.Sprintf("history %v: %s", h2, l.fail), map[string]any{"kind": "c09", "history": h2})
					chk.Set("states", states)
					chk.Set("transitions", transitions)
					return
				}
				k := l.key()
				if !seen[k] {
					if len(seen) >= maxStates {
						exhaustive = false
						continue
					}
					seen[k] = true
					states++
					next = append(next, h2)
					if states%97 == 0 {
						chk.Sample(strings.Join(h2, " "))
					}
				}
				cleanup(l)
			}
			cleanup(base)
		}
		frontier = next
		completedDepth = d
		if !exhaustive {
			break
		}
	}
	chk.Set("states", states)
	chk.Set("transitions", transitions)
	chk.Set("traces_validated_against_impl", transitions)
	chk.Set("depth_completed", completedDepth)
	chk.Set("state_cap_hit", !exhaustive)
	chk.Set("exhaustive", exhaustive)
	for k := range seen {
		chk.Distinct(k)
	}
	if chk.Violations() == 0 {
		realBoundary(chk)
	}
}

func cleanup(l *live) {
	for _, s := range l.subs {
		if s.active {
			s.closer()
			s.active = false
		}
	}
}

// realBoundary crosses the real 1440 checkpoint boundary without the accessor.
func realBoundary(chk *vcommon.Check) {
	ds := dssync.MutexWrap(datastore.NewMapDatastore())
	st, err := certstore.CreateStore(bg, ds, 1430, table0())
	if err != nil {
		chk.Violation("create-failed", err.Error(), nil)
		return
	}
	ref := &refStore{exists: true, first: 1430, tables: []gpbft.PowerEntries{table0()}}
	for i := 0; i < 25; i++ {
		cur := ref.latestTable()
		next := applyShape(cur, 1+i%4, i)
		c := honestCert(ref.next(), ref.head(), cur, next)
		if err := st.Put(bg, c); err != nil {
			chk.Violation("valid-successor-rejected", fmt.Sprintf("real-frequency store: Put(%d): %v", c.GPBFTInstance, err), map[string]any{"kind": "c09-real-boundary", "i": i})
			return
		}
		ref.certs = append(ref.certs, c)
		ref.tables = append(ref.tables, next)
		for _, reopen := range []bool{false, true} {
			s2 := st
			if reopen {
				if s2, err = certstore.OpenStore(bg, ds); err != nil {
					chk.Violation("reopen-failed", err.Error(), map[string]any{"kind": "c09-real-boundary", "i": i})
					return
				}
			}
			if got, want := observe(s2, ref.first, true), ref.refObserve(true); got != want {
				chk.Violation("store-differs-from-reference:"+firstDiffKind(got, want), fmt.Sprintf("real checkpoint frequency, after instance %d (reopen=%v): store differs from reference\n--- got\n%s--- want\n%s", c.GPBFTInstance, reopen, clip(got), clip(want)), map[string]any{"kind": "c09-real-boundary", "i": i})
				return
			}
		}
		chk.Add("transitions", 1)
	}
	chk.Set("real_1440_boundary_crossed", true)
}
