package main

import (
	"errors"
	"fmt"
	"strings"

	"github.com/filecoin-project/go-f3/certstore"
	"github.com/filecoin-project/go-f3/gpbft"
	"github.com/filecoin-project/go-f3/internal/verif/vcommon"
	"github.com/ipfs/go-datastore"
	dssync "github.com/ipfs/go-datastore/sync"
)

// C10: every prefix of the datastore write/delete log of the last operation of every history, reopened
// with every open variant.

type c10hist struct {
	First  uint64 `json:"first"`
	Shapes []int  `json:"put_shapes"`  // committed puts before the crashing operation
	Last   string `json:"crashing_op"` // create | put:<shape> | wipe
}

// c10Freq is the checkpoint frequency in force for the current history: 3 (lowered through the accessor) or 0 = the
// production frequency, untouched (needed because the lowered frequency is not yet in effect *while* a store is being
// opened, so open-time reads of checkpoints are only exercised at the real 1440 boundary).
var c10Freq uint64 = freq

func setFreq(st *certstore.Store) {
	if c10Freq > 0 {
		st.VerifSetPowerTableFrequency(c10Freq)
	}
}

// stateObs is the C10 observation: first instance, latest, certificates first..latest, tables first..latest+1;
// "uninit" for a datastore holding no store.
func stateObs(ds datastore.Datastore, variant string, first uint64) (string, error) {
	var st *certstore.Store
	var err error
	switch variant {
	case "open":
		st, err = certstore.OpenStore(bg, ds)
	case "ooc":
		st, err = certstore.OpenOrCreateStore(bg, ds, first, table0())
	case "create":
		st, err = certstore.CreateStore(bg, ds, first, table0())
	}
	if errors.Is(err, certstore.ErrNotInitialized) {
		return "uninit", nil
	}
	if err != nil {
		return "", err
	}
	setFreq(st)
	return fmt.Sprintf("first=%d\n%s", st.VerifFirstInstance(), observe(st, st.VerifFirstInstance(), false)), nil
}

func refObs(r *refStore) string {
	if !r.exists {
		return "uninit"
	}
	return fmt.Sprintf("first=%d\n%s", r.first, r.refObserve(false))
}

func runC10(chk *vcommon.Check, thorough bool) {
	maxPuts := 4
	if thorough {
		maxPuts = 6
	}
	var hists []c10hist
	var rec func(shapes []int)
	rec = func(shapes []int) {
		for _, first := range []uint64{0, 4} {
			lasts := []string{"wipe"}
			for s := 0; s < 5; s++ {
				lasts = append(lasts, fmt.Sprintf("put:%d", s))
			}
			if len(shapes) == 0 {
				lasts = append(lasts, "create")
			}
			for _, l := range lasts {
				hists = append(hists, c10hist{first, append([]int{}, shapes...), l})
			}
		}
		if len(shapes) < maxPuts {
			// committed prefix: shapes restricted to {0,1,3} to keep the history count moderate, all 5 for the last op
			for _, s := range []int{0, 1, 3} {
				rec(append(shapes, s))
			}
		}
	}
	rec(nil)
	// the production frequency at the real checkpoint boundary: the crashing put is instance 1439 (= 1440-1)
	for _, pre := range [][]int{{}, {1}, {1, 3}} {
		for _, l := range []string{"put:0", "put:1", "put:2", "put:4"} {
			hists = append(hists, c10hist{uint64(1439 - len(pre)), pre, l})
		}
	}
	var crashPoints, evals int64
	for hi, h := range hists {
		c10Freq = freq
		if h.First > 1000 {
			c10Freq = 0
		}
		// ---- committed prefix on a logging datastore
		inner := datastore.NewMapDatastore()
		lds := &logDS{Datastore: dssync.MutexWrap(inner)}
		ref := &refStore{}
		var st *certstore.Store
		var err error
		doPut := func(shape int) error {
			cur := ref.latestTable()
			next := applyShape(cur, shape, len(ref.certs))
			c := honestCert(ref.next(), ref.head(), cur, next)
			if err := st.Put(bg, c); err != nil {
				return err
			}
			ref = ref.clone()
			ref.certs = append(ref.certs, c)
			ref.tables = append(ref.tables, next)
			return nil
		}
		if h.Last != "create" {
			if st, err = certstore.CreateStore(bg, lds, h.First, table0()); err != nil {
				chk.Violation("create-failed", err.Error(), map[string]any{"kind": "c10", "history": h})
				return
			}
			setFreq(st)
			ref = &refStore{exists: true, first: h.First, tables: []gpbft.PowerEntries{table0()}}
			for _, s := range h.Shapes {
				if err := doPut(s); err != nil {
					chk.Violation("valid-successor-rejected", err.Error(), map[string]any{"kind": "c10", "history": h})
					return
				}
			}
		}
		before := dumpDS(inner)
		beforeObs := refObs(ref)
		refBefore := ref
		// ---- the crashing operation, recorded
		lds.rec = true
		switch {
		case h.Last == "create":
			_, err = certstore.CreateStore(bg, lds, h.First, table0())
			ref = &refStore{exists: true, first: h.First, tables: []gpbft.PowerEntries{table0()}}
		case h.Last == "wipe":
			err = st.DeleteAll(bg)
			ref = &refStore{}
		default:
			var s int
			fmt.Sscanf(h.Last[4:], "%d", &s)
			err = doPut(s)
		}
		lds.rec = false
		if err != nil {
			chk.Violation("operation-failed", fmt.Sprintf("%+v: %v", h, err), map[string]any{"kind": "c10", "history": h})
			return
		}
		afterObs := refObs(ref)
		log := lds.log
		if hi%17 == 0 {
			var ls []string
			for _, w := range log {
				if w.del {
					ls = append(ls, "del "+w.key.String())
				} else {
					ls = append(ls, "put "+w.key.String())
				}
			}
			chk.Sample(map[string]any{"history": h, "write_log": ls})
		}
		for cut := 0; cut <= len(log); cut++ {
			crashPoints++
			variants := []string{"open", "ooc"}
			if !refBefore.exists {
				variants = append(variants, "create")
			}
			for _, v := range variants {
				evals++
				img := map[string][]byte{}
				for k, val := range before {
					img[k] = val
				}
				for _, w := range log[:cut] {
					if w.del {
						delete(img, w.key.String())
					} else {
						img[w.key.String()] = w.val
					}
				}
				ds := dssync.MutexWrap(loadDS(img))
				rep := map[string]any{"kind": "c10", "history": h, "cut": cut, "of": len(log), "variant": v}
				got, err := stateObs(ds, v, h.First)
				where := fmt.Sprintf("%+v crashed after %d of %d datastore writes, reopened with %s", h, cut, len(log), v)
				if err != nil {
					// OpenOrCreate / Create over an existing store with the same parameters must work; a
					// CreateStore over a store that (already / still) exists may legitimately refuse.
					if v == "create" && strings.Contains(err.Error(), "already initialized") {
						// ... but only if there is a store: a datastore that OpenStore calls uninitialized and CreateStore
						// calls initialized can be neither opened nor created (a node does OpenStore, then CreateStore)
						if _, oerr := certstore.OpenStore(bg, dssync.MutexWrap(loadDS(img))); errors.Is(oerr, certstore.ErrNotInitialized) {
							chk.Violation("crash-leaves-datastore-neither-openable-nor-creatable", fmt.Sprintf("%s: OpenStore says the datastore holds no store, CreateStore says it is already initialized: %v", where, err), rep)
							return
						}
						continue
					}
					chk.Violation("crash-reopen-fails:"+h.Last[:3], fmt.Sprintf("%s: reopen failed: %v", where, err), rep)
					return
				}
				wantBefore, wantAfter := beforeObs, afterObs
				if h.Last == "wipe" {
					// an interrupted wipe must be completed on reopen (cut==0: nothing happened yet)
					if cut > 0 {
						wantBefore = wantAfter
					}
					if v != "open" {
						// OpenOrCreate re-creates an empty store after completing the wipe
						wantAfter = refObs(&refStore{exists: true, first: h.First, tables: []gpbft.PowerEntries{table0()}})
						if cut > 0 {
							wantBefore = wantAfter
						}
					}
				} else if v != "open" && !refBefore.exists {
					// opening with a creating variant turns "uninit" into the freshly created store
					wantBefore = wantAfter
				}
				if got != wantBefore && got != wantAfter {
					fp := "crash-state-neither-before-nor-after:" + h.Last[:3]
					if h.Last == "wipe" {
						fp = "interrupted-wipe-not-completed"
					}
					chk.Violation(fp, fmt.Sprintf("%s: observable state equals neither the state before nor after the operation\n--- got\n%s\n--- before\n%s\n--- after\n%s", where, clip(got), clip(wantBefore), clip(wantAfter)), rep)
					return
				}
				chk.Distinct(fmt.Sprintf("%s/%d/%d/%s/%v", h.Last, len(h.Shapes), cut, v, got == wantAfter))
				if h.Last == "wipe" && cut > 0 && v == "open" {
					if left := dumpDS(ds); len(left) != 0 {
						var ks []string
						for k := range left {
							ks = append(ks, k)
						}
						chk.Violation("interrupted-wipe-leaves-keys", fmt.Sprintf("%s: keys left behind: %v", where, ks), rep)
						return
					}
				}
				// the interrupted operation can be repeated successfully (on a store reopened for writing)
				if h.Last != "wipe" && h.Last != "create" && got == wantBefore {
					st2, err := certstore.OpenStore(bg, ds)
					if err == nil {
						setFreq(st2)
						c := ref.certs[len(ref.certs)-1]
						if err = st2.Put(bg, c); err == nil {
							if g := fmt.Sprintf("first=%d\n%s", st2.VerifFirstInstance(), observe(st2, st2.VerifFirstInstance(), false)); g != afterObs {
								err = fmt.Errorf("state after repeating the operation differs from the after-state")
							}
							// ... and the repaired state must itself survive a restart
							if err == nil {
								var g string
								if g, err = stateObs(ds, "open", h.First); err == nil && g != afterObs {
									err = fmt.Errorf("state after repeating the operation and restarting differs from the after-state")
								}
							}
						}
					}
					// ... and keep working: two more valid puts, full comparison with the extended reference,
					// also after another restart (latent damage such as a missing checkpoint shows up only now)
					if err == nil {
						ext := ref.clone()
						st3, e3 := certstore.OpenStore(bg, ds)
						if e3 == nil {
							setFreq(st3)
							for x := 0; x < 2 && e3 == nil; x++ {
								cur := ext.latestTable()
								nx := applyShape(cur, 1+x, 40+x)
								cc := honestCert(ext.next(), ext.head(), cur, nx)
								if e3 = st3.Put(bg, cc); e3 == nil {
									ext.certs = append(ext.certs, cc)
									ext.tables = append(ext.tables, nx)
								}
							}
						}
						if e3 == nil {
							if g := observe(st3, ext.first, true); g != ext.refObserve(true) {
								e3 = fmt.Errorf("store differs from the reference after continuing past the recovered operation:\n%s", clip(g))
							}
						}
						if e3 == nil {
							var g string
							if g, e3 = stateObs(ds, "open", h.First); e3 == nil && g != refObs(ext) {
								e3 = fmt.Errorf("store differs from the reference after continuing and restarting")
							}
						}
						if e3 != nil {
							chk.Violation("crash-recovery-latent-damage", fmt.Sprintf("%s: after recovering and repeating the operation the store does not keep working: %v", where, e3), rep)
							return
						}
					}
					if err != nil {
						chk.Violation("crash-operation-not-repeatable", fmt.Sprintf("%s: repeating the operation failed: %v", where, err), rep)
						return
					}
				}
			}
		}
	}
	chk.Set("evaluations", evals)
	chk.Set("crash_points", crashPoints)
	chk.Set("histories", len(hists))
	chk.Set("exhaustive", true)
}
