package main

import (
	"bytes"
	"context"
	"errors"
	"fmt"
	"sort"
	"strings"

	"github.com/filecoin-project/go-f3/certs"
	"github.com/filecoin-project/go-f3/certstore"
	"github.com/filecoin-project/go-f3/gpbft"
	"github.com/filecoin-project/go-f3/internal/verif/vfix"
	"github.com/ipfs/go-datastore"
	"github.com/ipfs/go-datastore/query"
)

var bg = context.Background()

const freq = 3 // lowered power-table checkpoint frequency (accessor); the real 1440 boundary is crossed separately

var keys = vfix.NewKeys(32)

// ---- fixtures: tables and delta shapes ------------------------------------------------------------------

func table0() gpbft.PowerEntries {
	return vfix.Canon(gpbft.PowerEntries{
		keys.Entry(1, gpbft.NewStoragePower(50), 1),
		keys.Entry(2, gpbft.NewStoragePower(40), 2),
		keys.Entry(3, gpbft.NewStoragePower(30), 3),
	})
}

func otherTable() gpbft.PowerEntries {
	return vfix.Canon(gpbft.PowerEntries{
		keys.Entry(1, gpbft.NewStoragePower(51), 1),
		keys.Entry(2, gpbft.NewStoragePower(40), 2),
	})
}

// applyShape derives the next table from cur by one of the delta shapes; n makes successive uses differ.
// Shapes: 0 none, 1 re-weight, 2 add member, 3 remove member, 4 re-key.
func applyShape(cur gpbft.PowerEntries, shape, n int) gpbft.PowerEntries {
	next := vfix.CloneEntries(cur)
	switch shape {
	case 1:
		i := n % len(next)
		next[i].Power = gpbft.NewStoragePower(next[i].Power.Int64() + int64(7+n))
	case 2:
		id := uint64(10 + n)
		for _, e := range next {
			if uint64(e.ID) == id {
				id += 100
			}
		}
		next = append(next, keys.Entry(id, gpbft.NewStoragePower(int64(20+n)), int(id%30)))
	case 3:
		if len(next) > 2 {
			i := n % len(next)
			next = append(next[:i], next[i+1:]...)
		} else {
			next[0].Power = gpbft.NewStoragePower(next[0].Power.Int64() + 1)
		}
	case 4:
		i := n % len(next)
		next[i].PubKey = keys.Pub(20 + (n % 10))
		if bytes.Equal(next[i].PubKey, cur[i].PubKey) {
			next[i].PubKey = keys.Pub(31)
		}
	}
	return vfix.Canon(next)
}

func tipsetFor(inst uint64, epoch int64, pt gpbft.PowerEntries) *gpbft.TipSet {
	return vfix.TipSet(fmt.Sprintf("i%d", inst), epoch, vfix.TableCID(pt))
}

// honestCert builds the certificate for inst over table cur with next table next, linked to prevHead.
func honestCert(inst uint64, prevHead *gpbft.TipSet, cur, next gpbft.PowerEntries) *certs.FinalityCertificate {
	chain := &gpbft.ECChain{TipSets: []*gpbft.TipSet{prevHead, tipsetFor(inst, prevHead.Epoch+1, cur)}}
	return keys.Cert(vfix.Network, inst, chain, cur, next, vfix.MinimalQuorum(cur))
}

func genesisTipset(pt gpbft.PowerEntries) *gpbft.TipSet {
	return vfix.TipSet("gen", 0, vfix.TableCID(pt))
}

// ---- reference model ----------------------------------------------------------------------------------

type refStore struct {
	exists bool
	first  uint64
	certs  []*certs.FinalityCertificate
	tables []gpbft.PowerEntries // tables[k] validates instance first+k; len = len(certs)+1
}

func (r *refStore) clone() *refStore {
	c := *r
	c.certs = append([]*certs.FinalityCertificate{}, r.certs...)
	c.tables = append([]gpbft.PowerEntries{}, r.tables...)
	return &c
}

func (r *refStore) next() uint64 { return r.first + uint64(len(r.certs)) }

func (r *refStore) head() *gpbft.TipSet {
	if len(r.certs) == 0 {
		return genesisTipset(r.tables[0])
	}
	return r.certs[len(r.certs)-1].ECChain.Head()
}

func (r *refStore) latestTable() gpbft.PowerEntries { return r.tables[len(r.tables)-1] }

func certBytes(c *certs.FinalityCertificate) []byte {
	if c == nil {
		return nil
	}
	var b bytes.Buffer
	if err := c.MarshalCBOR(&b); err != nil {
		panic(err)
	}
	return b.Bytes()
}

func entriesStr(e gpbft.PowerEntries) string {
	var sb strings.Builder
	for _, x := range e {
		fmt.Fprintf(&sb, "%d:%s:%x,", x.ID, x.Power, x.PubKey[len(x.PubKey)-4:])
	}
	return sb.String()
}

// observe renders everything observable through the public API of a store, for instances lo..hi.
// upTo limits certificate reads to instances <= upTo (C10: state "up to the latest").
func observe(st *certstore.Store, first uint64, withBeyond bool) string {
	var sb strings.Builder
	latest := st.Latest()
	if latest == nil {
		sb.WriteString("latest=nil\n")
	} else {
		fmt.Fprintf(&sb, "latest=%d:%x\n", latest.GPBFTInstance, certBytes(latest)[:16])
	}
	hi := first
	if latest != nil {
		hi = latest.GPBFTInstance + 1
	}
	lo := first
	if lo > 0 {
		lo--
	}
	top := hi
	if withBeyond {
		top = hi + 2
	}
	for i := lo; i <= top; i++ {
		if i < hi || withBeyond {
			c, err := st.Get(bg, i)
			switch {
			case err == nil:
				fmt.Fprintf(&sb, "get(%d)=%x\n", i, certBytes(c))
			case errors.Is(err, certstore.ErrCertNotFound):
				fmt.Fprintf(&sb, "get(%d)=notfound\n", i)
			default:
				fmt.Fprintf(&sb, "get(%d)=ERR\n", i)
			}
		}
		pt, err := st.GetPowerTable(bg, i)
		if err != nil {
			fmt.Fprintf(&sb, "pt(%d)=ERR\n", i)
		} else {
			fmt.Fprintf(&sb, "pt(%d)=%s\n", i, entriesStr(pt))
		}
	}
	if latest != nil {
		rs, err := st.GetRange(bg, first, latest.GPBFTInstance)
		fmt.Fprintf(&sb, "range(%d,%d)=%d,%v;", first, latest.GPBFTInstance, len(rs), err == nil)
		for i := range rs {
			fmt.Fprintf(&sb, "%x;", certBytes(&rs[i])[:16])
		}
		sb.WriteString("\n")
		if withBeyond {
			rs, err = st.GetRange(bg, first, latest.GPBFTInstance+1)
			fmt.Fprintf(&sb, "range+1=%d,%v\n", len(rs), errors.Is(err, certstore.ErrCertNotFound))
		}
	}
	return sb.String()
}

// refObserve renders what observe must return according to the reference model.
func (r *refStore) refObserve(withBeyond bool) string {
	var sb strings.Builder
	var latest *certs.FinalityCertificate
	if n := len(r.certs); n > 0 {
		latest = r.certs[n-1]
	}
	if latest == nil {
		sb.WriteString("latest=nil\n")
	} else {
		fmt.Fprintf(&sb, "latest=%d:%x\n", latest.GPBFTInstance, certBytes(latest)[:16])
	}
	hi := r.next()
	lo := r.first
	if lo > 0 {
		lo--
	}
	top := hi
	if withBeyond {
		top = hi + 2
	}
	for i := lo; i <= top; i++ {
		if i < hi || withBeyond {
			if i >= r.first && i < hi {
				fmt.Fprintf(&sb, "get(%d)=%x\n", i, certBytes(r.certs[i-r.first]))
			} else {
				fmt.Fprintf(&sb, "get(%d)=notfound\n", i)
			}
		}
		if i >= r.first && i <= hi {
			fmt.Fprintf(&sb, "pt(%d)=%s\n", i, entriesStr(r.tables[i-r.first]))
		} else {
			fmt.Fprintf(&sb, "pt(%d)=ERR\n", i)
		}
	}
	if latest != nil {
		fmt.Fprintf(&sb, "range(%d,%d)=%d,true;", r.first, latest.GPBFTInstance, len(r.certs))
		for _, c := range r.certs {
			fmt.Fprintf(&sb, "%x;", certBytes(c)[:16])
		}
		sb.WriteString("\n")
		if withBeyond {
			fmt.Fprintf(&sb, "range+1=%d,true\n", len(r.certs))
		}
	}
	return sb.String()
}

// ---- datastore helpers ---------------------------------------------------------------------------------

// logDS records every Put/Delete (crash points are the gaps between them).
type logDS struct {
	datastore.Datastore
	log []dsWrite
	rec bool
}

type dsWrite struct {
	del bool
	key datastore.Key
	val []byte
}

func (l *logDS) Put(ctx context.Context, k datastore.Key, v []byte) error {
	if l.rec {
		l.log = append(l.log, dsWrite{false, k, append([]byte{}, v...)})
	}
	return l.Datastore.Put(ctx, k, v)
}

func (l *logDS) Delete(ctx context.Context, k datastore.Key) error {
	if l.rec {
		l.log = append(l.log, dsWrite{true, k, nil})
	}
	return l.Datastore.Delete(ctx, k)
}

func dumpDS(ds datastore.Datastore) map[string][]byte {
	out := map[string][]byte{}
	res, err := ds.Query(bg, query.Query{})
	if err != nil {
		panic(err)
	}
	for r := range res.Next() {
		out[r.Key] = append([]byte{}, r.Value...)
	}
	return out
}

func loadDS(m map[string][]byte) datastore.Datastore {
	ds := datastore.NewMapDatastore()
	ks := make([]string, 0, len(m))
	for k := range m {
		ks = append(ks, k)
	}
	sort.Strings(ks)
	for _, k := range ks {
		_ = ds.Put(bg, datastore.NewKey(k), m[k])
	}
	return ds
}
