package main

import (
	"bytes"
	"context"
	"fmt"
	"runtime"
	"sync"
	"sync/atomic"
	"time"

	f3 "github.com/filecoin-project/go-f3"
	"github.com/filecoin-project/go-f3/certs"
	"github.com/filecoin-project/go-f3/certstore"
	"github.com/filecoin-project/go-f3/gpbft"
	"github.com/filecoin-project/go-f3/internal/clock"
	"github.com/filecoin-project/go-f3/internal/verif/vcommon"
	"github.com/filecoin-project/go-f3/internal/verif/vfix"
	"github.com/filecoin-project/go-f3/manifest"
	"github.com/ipfs/go-datastore"
	dssync "github.com/ipfs/go-datastore/sync"
)

var bg = context.Background()

const ecPeriod = 30 * time.Second

var ecStart = time.Unix(1_700_000_000, 0).UTC()

type c15case struct {
	MainMask   int    `json:"main_mask"`
	Epochs     int    `json:"epochs"`
	ForkPoint  int64  `json:"fork_point"` // -1: none
	ForkLen    int    `json:"fork_len"`
	Head       string `json:"head"` // "main", "fork", "early"
	Base       string `json:"base"` // "" = first instance (bootstrap); else tipset key
	Lookback   int    `json:"head_lookback"`
	PropLen    int    `json:"proposal_len"`
	Fresh      bool   `json:"fresh_clock"`
	LongLinear int    `json:"long_linear,omitempty"`
}

func baseManifest() manifest.Manifest {
	m := manifest.LocalDevnetManifest()
	m.NetworkName = vfix.Network
	m.InitialInstance = 0
	m.BootstrapEpoch = 2
	m.EC.Finality = 1
	m.EC.Period = ecPeriod
	m.CommitteeLookback = 5
	return m
}

// buildTree constructs the model tree of a case; returns ec, main tipsets, fork tipsets.
func buildTree(keys vfix.Keys, c c15case) (*treeEC, []*mts, []*mts) {
	e := newTreeEC(keys, ecStart, ecPeriod, evolvingTable(keys))
	var main, fork []*mts
	cur := e.add("m", 0, nil)
	main = append(main, cur)
	if c.LongLinear > 0 {
		for ep := int64(1); ep <= int64(c.LongLinear); ep++ {
			cur = e.add("m", ep, cur)
			main = append(main, cur)
		}
	} else {
		for ep := 1; ep <= c.Epochs; ep++ {
			if c.MainMask&(1<<(ep-1)) != 0 {
				cur = e.add("m", int64(ep), cur)
				main = append(main, cur)
			}
		}
	}
	if c.ForkPoint >= 0 {
		var fp *mts
		for _, t := range main {
			if t.epoch == c.ForkPoint {
				fp = t
			}
		}
		if fp != nil {
			p := fp
			for i := 1; i <= c.ForkLen; i++ {
				p = e.add("f", fp.epoch+int64(i), p)
				fork = append(fork, p)
			}
		}
	}
	switch c.Head {
	case "fork":
		if len(fork) > 0 {
			e.head = fork[len(fork)-1]
		} else {
			e.head = main[len(main)-1]
		}
	case "early":
		e.head = main[min(1, len(main)-1)]
	default:
		e.head = main[len(main)-1]
	}
	return e, main, fork
}

func isAncestorOrSelf(a, t *mts) bool {
	for ; t != nil; t = t.parent {
		if t == a {
			return true
		}
	}
	return false
}

// modelProposal is the independent reference for GetProposal (documented behaviour).
func modelProposal(e *treeEC, base *mts, m manifest.Manifest, now time.Time) []*mts {
	head := e.head
	if head.epoch < base.epoch || !isAncestorOrSelf(base, head) {
		return []*mts{base}
	}
	var suffix []*mts
	for t := head; t != base; t = t.parent {
		suffix = append([]*mts{t}, suffix...)
	}
	if m.EC.HeadLookback > 0 {
		suffix = suffix[:max(0, len(suffix)-m.EC.HeadLookback)]
	}
	if len(suffix) > 0 && now.Sub(suffix[len(suffix)-1].ts) < m.EC.Period {
		suffix = suffix[:len(suffix)-1]
	}
	maxSuffix := min(gpbft.ChainMaxLen, m.Gpbft.ChainProposedLength) - 1
	if len(suffix) > maxSuffix {
		suffix = suffix[:maxSuffix]
	}
	return append([]*mts{base}, suffix...)
}

type c15env struct {
	keys    vfix.Keys
	initial gpbft.PowerEntries
}

func (env *c15env) newStore(first uint64) *certstore.Store {
	ds := dssync.MutexWrap(datastore.NewMapDatastore())
	cs, err := certstore.CreateStore(bg, ds, first, env.initial)
	if err != nil {
		panic(err)
	}
	return cs
}

// checkProposal runs one case; returns (fingerprint, description) on violation.
func (env *c15env) checkProposal(c c15case, chk *vcommon.Check, deviations *atomic.Int64) (string, string) {
	e, _, _ := buildTree(env.keys, c)
	m := baseManifest()
	m.EC.HeadLookback = c.Lookback
	m.Gpbft.ChainProposedLength = c.PropLen
	clk := clock.NewMock()
	now := e.head.ts.Add(2 * ecPeriod)
	if c.Fresh {
		now = e.head.ts.Add(ecPeriod / 2)
	}
	clk.Set(now)
	cs := env.newStore(0)
	instance := uint64(0)
	var base *mts
	if c.Base == "" {
		t, err := e.GetTipsetByEpoch(bg, m.BootstrapEpoch-m.EC.Finality)
		if err != nil {
			return "", "" // bootstrap tipset does not exist in this tree: not a case
		}
		base = t.(*mts)
	} else {
		base = e.byKey[c.Base]
		if base == nil {
			return "", ""
		}
		// certificate for instance 0 finalizing [genesis .. base]
		g := e.byKey["m/0"]
		chain := &gpbft.ECChain{TipSets: []*gpbft.TipSet{{Epoch: g.epoch, Key: g.key, PowerTable: vfix.TableCID(g.table)}}}
		if base != g {
			if base.epoch <= g.epoch {
				return "", ""
			}
			chain.TipSets = append(chain.TipSets, &gpbft.TipSet{Epoch: base.epoch, Key: base.key, PowerTable: vfix.TableCID(base.table)})
		}
		cert := &certs.FinalityCertificate{GPBFTInstance: 0, ECChain: chain, SupplementalData: gpbft.SupplementalData{PowerTable: vfix.TableCID(env.initial)}}
		if err := cs.Put(bg, cert); err != nil {
			panic(err)
		}
		instance = 1
	}
	in := f3.VerifNewInputs(m, cs, e, env.keys, clk)
	supp, chain, err := in.GetProposal(bg, instance)
	desc := func(s string) string { return fmt.Sprintf("%s [case %+v base=%s head=%s]", s, c, base, e.head) }
	if err != nil {
		return "proposal-error", desc("GetProposal failed: " + err.Error())
	}
	want := modelProposal(e, base, m, now)
	// ---- statement-level checks
	if chain.IsZero() || !bytes.Equal(chain.Base().Key, base.key) || chain.Base().Epoch != base.epoch {
		return "proposal-wrong-base", desc(fmt.Sprintf("proposal %s does not start at the finalized tipset", chain))
	}
	if err := chain.Validate(); err != nil {
		return "proposal-malformed", desc("proposal not well-formed: " + err.Error())
	}
	if chain.Len() > min(gpbft.ChainMaxLen, max(1, c.PropLen)) {
		return "proposal-too-long", desc(fmt.Sprintf("proposal length %d exceeds min(%d, configured %d)", chain.Len(), gpbft.ChainMaxLen, c.PropLen))
	}
	descends := e.head.epoch >= base.epoch && isAncestorOrSelf(base, e.head)
	if !descends && chain.Len() != 1 {
		return "proposal-not-collapsed-on-divergence", desc(fmt.Sprintf("head does not descend from the base but proposal is %s", chain))
	}
	prev := base
	for i, ts := range chain.TipSets {
		t := e.byKey[string(ts.Key)]
		if t == nil || t.epoch != ts.Epoch {
			return "proposal-unknown-tipset", desc(fmt.Sprintf("tipset %d of proposal unknown to EC", i))
		}
		if ts.PowerTable != vfix.TableCID(t.table) {
			return "proposal-wrong-powertable-cid", desc(fmt.Sprintf("tipset %d (%s) carries a CID that is not the CID of EC's power table at that tipset", i, t))
		}
		if i == 0 {
			continue
		}
		if t.parent != prev {
			return "proposal-not-parent-linked", desc(fmt.Sprintf("tipset %d (%s) is not the child of tipset %d (%s)", i, t, i-1, prev))
		}
		if !isAncestorOrSelf(t, e.head) {
			return "proposal-off-head-chain", desc(fmt.Sprintf("tipset %d (%s) is not on the parent chain of the head", i, t))
		}
		prev = t
	}
	if chain.Len() > 1 {
		last := e.byKey[string(chain.Head().Key)]
		depth := 0
		for t := e.head; t != last; t = t.parent {
			depth++
		}
		if depth < c.Lookback {
			return "proposal-ignores-head-lookback", desc(fmt.Sprintf("proposal head %s is only %d tipsets behind the EC head (configured look-back %d)", last, depth, c.Lookback))
		}
		if now.Sub(last.ts) < ecPeriod {
			return "proposal-includes-fresh-tipset", desc(fmt.Sprintf("proposal head %s is younger than one EC period", last))
		}
	}
	if want := vfix.TableCID(env.initial); supp == nil || supp.PowerTable != want {
		return "proposal-supplemental-not-next-committee", desc("supplemental data does not commit to the next instance's committee")
	}
	// ---- exact model comparison: over-proposal is covered above; under-proposal is only counted
	if chain.Len() != len(want) {
		deviations.Add(1)
	}
	chk.Distinct(fmt.Sprintf("%d/%v", chain.Len(), descends))
	return "", ""
}

func runC15(chk *vcommon.Check, thorough bool) {
	keys := vfix.NewKeys(16)
	env := &c15env{keys: keys, initial: evolvingTable(keys)("m", 0)}
	epochs := 6
	if thorough {
		epochs = 7
	}
	var cases []c15case
	lookbacks := []int{0, 1, 4}
	proplens := []int{1, 2, 5, 128}
	for mask := 0; mask < 1<<epochs; mask++ {
		// tipsets present on main
		present := []int64{0}
		for ep := 1; ep <= epochs; ep++ {
			if mask&(1<<(ep-1)) != 0 {
				present = append(present, int64(ep))
			}
		}
		type fk struct {
			fp int64
			l  int
		}
		forks := []fk{{-1, 0}}
		for _, fp := range present {
			for l := 1; l <= 3 && fp+int64(l) <= int64(epochs); l++ {
				forks = append(forks, fk{fp, l})
			}
		}
		for _, f := range forks {
			heads := []string{"main", "early"}
			if f.fp >= 0 {
				heads = append(heads, "fork")
			}
			bases := []string{""}
			for _, ep := range present {
				bases = append(bases, fmt.Sprintf("m/%d", ep))
			}
			for i := 1; i <= f.l; i++ {
				bases = append(bases, fmt.Sprintf("f/%d", f.fp+int64(i)))
			}
			for _, h := range heads {
				for _, b := range bases {
					for _, lb := range lookbacks {
						for _, pl := range proplens {
							for _, fresh := range []bool{false, true} {
								cases = append(cases, c15case{MainMask: mask, Epochs: epochs, ForkPoint: f.fp, ForkLen: f.l, Head: h, Base: b, Lookback: lb, PropLen: pl, Fresh: fresh})
							}
						}
					}
				}
			}
		}
	}
	// long linear chains for the length maxima
	for _, pl := range []int{1, 2, 5, 100, 128, 129, 200} {
		for _, lb := range []int{0, 1, 4} {
			for _, b := range []string{"", "m/0", "m/100", "m/299", "m/300"} {
				cases = append(cases, c15case{LongLinear: 300, ForkPoint: -1, Head: "main", Base: b, Lookback: lb, PropLen: pl})
			}
		}
	}
	var deviations atomic.Int64
	var next atomic.Int64
	var wg sync.WaitGroup
	var stop atomic.Bool
	var mu sync.Mutex
	for w := 0; w < runtime.NumCPU(); w++ {
		wg.Add(1)
		go func() {
			defer wg.Done()
			for !stop.Load() {
				i := int(next.Add(1)) - 1
				if i >= len(cases) {
					return
				}
				fp, what := env.checkProposal(cases[i], chk, &deviations)
				if fp != "" {
					mu.Lock()
					chk.Violation(fp, what, map[string]any{"kind": "c15-proposal", "case": cases[i]})
					mu.Unlock()
					stop.Store(true)
				}
			}
		}()
	}
	wg.Wait()
	chk.Add("evaluations", int64(len(cases)))
	chk.Set("proposal_cases", len(cases))
	chk.Set("proposal_shorter_than_model", deviations.Load())
	chk.Sample(cases[len(cases)/3])
	chk.Sample(cases[len(cases)-1])
	if chk.Violations() == 0 {
		runCommittees(chk, env, thorough)
	}
}

// ---- committees ---------------------------------------------------------------------------------------

type histCase struct {
	Lookback uint64 `json:"committee_lookback"`
	Initial  uint64 `json:"initial_instance"`
	Length   int    `json:"history_length"`
	Step     int    `json:"epochs_per_certificate"`
}

// honestHistory builds a linear EC (one tipset per epoch, evolving tables) and the certificates a real
// network would produce: cert j finalizes Step tipsets, committee(i) by the documented look-back rule.
func honestHistory(env *c15env, hc histCase, extraHead int64) (*treeEC, []*certs.FinalityCertificate, manifest.Manifest) {
	e := newTreeEC(env.keys, ecStart, ecPeriod, evolvingTable(env.keys))
	m := baseManifest()
	m.CommitteeLookback = hc.Lookback
	m.InitialInstance = hc.Initial
	total := int64(2 + hc.Length*hc.Step + 4)
	cur := e.add("m", 0, nil)
	for ep := int64(1); ep <= total+extraHead; ep++ {
		cur = e.add("m", ep, cur)
	}
	e.head = cur
	bootEpoch := m.BootstrapEpoch - m.EC.Finality
	boot := e.byKey[fmt.Sprintf("m/%d", bootEpoch)]
	initial := boot.table
	heads := []*mts{} // heads[j] = head finalized by cert of instance Initial+j
	committee := func(i uint64) gpbft.PowerEntries {
		if i < hc.Initial+hc.Lookback {
			return initial
		}
		return heads[i-hc.Lookback-hc.Initial].table
	}
	var out []*certs.FinalityCertificate
	prev := boot
	for j := 0; j < hc.Length; j++ {
		inst := hc.Initial + uint64(j)
		ts := []*gpbft.TipSet{{Epoch: prev.epoch, Key: prev.key, PowerTable: vfix.TableCID(prev.table)}}
		h := prev
		for s := 1; s <= hc.Step; s++ {
			h = e.byKey[fmt.Sprintf("m/%d", prev.epoch+int64(s))]
			ts = append(ts, &gpbft.TipSet{Epoch: h.epoch, Key: h.key, PowerTable: vfix.TableCID(h.table)})
		}
		heads = append(heads, h)
		cur, next := committee(inst), committee(inst+1)
		out = append(out, env.keys.Cert(m.NetworkName, inst, &gpbft.ECChain{TipSets: ts}, cur, next, vfix.MinimalQuorum(cur)))
		prev = h
	}
	return e, out, m
}

func runCommittees(chk *vcommon.Check, env *c15env, thorough bool) {
	maxLen := 8
	if thorough {
		maxLen = 12
	}
	n := 0
	for _, lb := range []uint64{2, 3, 5} {
		for _, init := range []uint64{0, 7} {
			for _, step := range []int{0, 1, 2} {
				for length := 0; length <= maxLen; length++ {
					hc := histCase{lb, init, length, step}
					e, cs, m := honestHistory(env, hc, 0)
					e2, _, _ := honestHistory(env, hc, 3) // a second node whose EC head is further ahead
					store, store2 := env.newStoreFor(e, m), env.newStoreFor(e2, m)
					for _, c := range cs {
						// the certificate chain must be valid under the node's validator (sanity of the fixture)
						if err := store.Put(bg, c); err != nil {
							chk.Violation("c15-fixture-cert-rejected", fmt.Sprintf("%+v: honest certificate %d rejected by store: %v", hc, c.GPBFTInstance, err), map[string]any{"kind": "c15-committee", "case": hc})
							return
						}
						_ = store2.Put(bg, c)
					}
					clk := clock.NewMock()
					in := f3.VerifNewInputs(m, store, e, env.keys, clk)
					in2 := f3.VerifNewInputs(m, store2, e2, env.keys, clk)
					boot := e.byKey[fmt.Sprintf("m/%d", m.BootstrapEpoch-m.EC.Finality)]
					// the next instance to run: its proposal must start at the last finalized head and its
					// supplemental data must commit to the committee of the instance after it
					{
						next := init + uint64(length)
						clk.Set(e.head.ts.Add(2 * ecPeriod))
						supp, chain, err := in.GetProposal(bg, next)
						rep := map[string]any{"kind": "c15-committee", "case": hc, "instance": next}
						if err != nil {
							chk.Violation("proposal-error", fmt.Sprintf("%+v: GetProposal(%d): %v", hc, next, err), rep)
							return
						}
						wantBase := boot
						if length > 0 {
							wantBase = e.byKey[string(cs[length-1].ECChain.Head().Key)]
						}
						if !bytes.Equal(chain.Base().Key, wantBase.key) {
							chk.Violation("proposal-wrong-base", fmt.Sprintf("%+v: proposal for instance %d starts at %s, not at the head finalized by instance %d (%s)", hc, next, chain.Base(), next-1, wantBase), rep)
							return
						}
						var nextTable gpbft.PowerEntries
						if next+1 < init+lb {
							nextTable = boot.table
						} else if k := next + 1 - lb - init; k < uint64(len(cs)) {
							nextTable = e.byKey[string(cs[k].ECChain.Head().Key)].table
						}
						if nextTable != nil && supp.PowerTable != vfix.TableCID(vfix.Canon(nextTable)) {
							chk.Violation("proposal-supplemental-not-next-committee", fmt.Sprintf("%+v: supplemental data of the proposal for instance %d does not commit to the committee of instance %d", hc, next, next+1), rep)
							return
						}
					}
					// the certificate store may be ahead of the instance being begun (certificates fetched by the exchange
					// while the instance was scheduled): the proposal of instance j still starts where instance j-1 ended
					for j := 1; j < length; j++ {
						inst := init + uint64(j)
						n++
						_, chain, err := in.GetProposal(bg, inst)
						rep := map[string]any{"kind": "c15-committee", "case": hc, "instance": inst}
						if err != nil {
							chk.Violation("proposal-error", fmt.Sprintf("%+v: GetProposal(%d) with certificates up to %d stored: %v", hc, inst, init+uint64(length)-1, err), rep)
							return
						}
						wantBase := e.byKey[string(cs[j-1].ECChain.Head().Key)]
						if !bytes.Equal(chain.Base().Key, wantBase.key) {
							chk.Violation("proposal-wrong-base", fmt.Sprintf("%+v: with certificates up to instance %d stored, the proposal for instance %d starts at %s, not at the head finalized by instance %d (%s)", hc, init+uint64(length)-1, inst, chain.Base(), inst-1, wantBase), rep)
							return
						}
					}
					for i := init; i <= init+uint64(length)+lb+1; i++ {
						n++
						got, err := in.GetCommittee(bg, i)
						// expected by the statement
						var wantTable gpbft.PowerEntries
						var wantBeacon []byte
						defined := true
						switch {
						case i < init+lb:
							wantTable, wantBeacon = boot.table, boot.beacon
						case i-lb-init < uint64(len(cs)):
							h := e.byKey[string(cs[i-lb-init].ECChain.Head().Key)]
							wantTable, wantBeacon = h.table, h.beacon
						default:
							defined = false
						}
						rep := map[string]any{"kind": "c15-committee", "case": hc, "instance": i}
						if !defined {
							if err == nil {
								chk.Violation("committee-from-unfinalized-history", fmt.Sprintf("%+v: committee for instance %d returned although instance %d is not finalized", hc, i, i-lb), rep)
								return
							}
							continue
						}
						if err != nil {
							chk.Violation("committee-error", fmt.Sprintf("%+v: GetCommittee(%d): %v", hc, i, err), rep)
							return
						}
						if !got.PowerTable.Entries.Equal(vfix.Canon(wantTable)) {
							chk.Violation("committee-wrong-table", fmt.Sprintf("%+v: committee(%d) table differs from the table at the head finalized %d instances earlier", hc, i, lb), rep)
							return
						}
						if !bytes.Equal(got.Beacon, wantBeacon) {
							chk.Violation("committee-wrong-beacon", fmt.Sprintf("%+v: committee(%d) beacon %q, want %q (head finalized %d instances earlier)", hc, i, got.Beacon, wantBeacon, lb), rep)
							return
						}
						got2, err2 := in2.GetCommittee(bg, i)
						if err2 != nil || !got2.PowerTable.Entries.Equal(got.PowerTable.Entries) || !bytes.Equal(got2.Beacon, got.Beacon) {
							chk.Violation("committee-depends-on-ec-head", fmt.Sprintf("%+v: two nodes with the same certificates but different EC heads derive different committees for instance %d (%v)", hc, i, err2), rep)
							return
						}
						chk.Distinct(fmt.Sprintf("cm%d/%d/%d/%d/%d", lb, init, step, length, i))
					}
				}
			}
		}
	}
	chk.Add("evaluations", int64(n))
	chk.Set("committee_cases", n)
	chk.Sample(histCase{3, 7, 6, 2})
}

func (env *c15env) newStoreFor(e *treeEC, m manifest.Manifest) *certstore.Store {
	boot := e.byKey[fmt.Sprintf("m/%d", m.BootstrapEpoch-m.EC.Finality)]
	ds := dssync.MutexWrap(datastore.NewMapDatastore())
	cs, err := certstore.CreateStore(bg, ds, m.InitialInstance, boot.table)
	if err != nil {
		panic(err)
	}
	return cs
}
