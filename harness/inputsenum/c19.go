package main

import (
	"bytes"
	"context"
	"fmt"
	"strings"
	"time"

	f3 "github.com/filecoin-project/go-f3"
	"github.com/filecoin-project/go-f3/certchain"
	"github.com/filecoin-project/go-f3/gpbft"
	"github.com/filecoin-project/go-f3/internal/clock"
	"github.com/filecoin-project/go-f3/internal/verif/vcommon"
	"github.com/filecoin-project/go-f3/internal/verif/vfix"
	"github.com/filecoin-project/go-f3/sim"
	"github.com/filecoin-project/go-f3/sim/adversary"
	"github.com/filecoin-project/go-f3/sim/signing"
)

// ---- part (a): the simulator as an oracle ---------------------------------------------------------------

type forgeCase struct {
	Powers   []int64 `json:"honest_powers"`
	AdvPower int64   `json:"adversary_power"`
	Kind     string  `json:"kind"`    // valid, wrong-instance, wrong-phase, wrong-round, empty, wrong-base, bad-aggregate, subset
	Signers  []int   `json:"signers"` // canonical indices into the instance power table
	Disagree bool    `json:"overwrite_honest_decision,omitempty"`
}

// forger is a sim adversary that never votes; at start it reports one forged decision through the host
// interface the simulator gives to every participant.
type forger struct {
	adversary.Absent
	host     adversary.Host
	id       gpbft.ActorID
	fc       forgeCase
	simRef   **sim.Simulation
	expected *bool // set by the forger: must Run error?
	note     *string
	done     bool
	over     bool
}

func (f *forger) forge(instance uint64, kind string, signers []int, value *gpbft.ECChain) (*gpbft.Justification, bool) {
	supp, proposal, err := f.host.GetProposal(bg, instance)
	if err != nil {
		panic(err)
	}
	comt, err := f.host.GetCommittee(bg, instance)
	if err != nil {
		panic(err)
	}
	pt := comt.PowerTable
	if value == nil {
		value = proposal // the adversary host proposes the base chain of the instance
	}
	payload := gpbft.Payload{Instance: instance, Round: 0, Phase: gpbft.DECIDE_PHASE, SupplementalData: *supp, Value: value}
	valid := true
	switch kind {
	case "wrong-instance":
		payload.Instance = instance + 1
		valid = false
	case "wrong-phase":
		payload.Phase = gpbft.COMMIT_PHASE
		valid = false
	case "wrong-round":
		payload.Round = 1
		valid = false
	case "empty":
		payload.Value = &gpbft.ECChain{}
		valid = false
	case "wrong-base":
		b := *value.Base()
		b.Key = append([]byte("other-"), b.Key...)
		payload.Value = &gpbft.ECChain{TipSets: append([]*gpbft.TipSet{&b}, value.Suffix()...)}
		valid = false
	}
	msg := payload.MarshalForSigning(f.host.NetworkName())
	var sigs [][]byte
	var power int64
	for _, i := range signers {
		s, err := f.host.Sign(bg, pt.Entries[i].PubKey, msg)
		if err != nil {
			panic(err)
		}
		sigs = append(sigs, s)
		power += pt.ScaledPower[i] // a signer without scaled power adds nothing; C19 does not ask the simulator to reject it
	}
	if 3*power < 2*pt.ScaledTotal {
		valid = false
	}
	agg, err := comt.AggregateVerifier.Aggregate(signers, sigs)
	if err != nil {
		panic(err)
	}
	if kind == "bad-aggregate" {
		agg = append([]byte{}, agg...)
		agg[0] ^= 0xff
		valid = false
	}
	return &gpbft.Justification{Vote: payload, Signers: vfix.Bitfield(signers), Signature: agg}, valid
}

func (f *forger) StartInstanceAt(instance uint64, _ time.Time) error {
	if f.done || f.fc.Disagree || strings.HasPrefix(f.fc.Kind, "last-") {
		return nil
	}
	f.done = true
	if strings.HasPrefix(f.fc.Kind, "valid-then-") {
		// a genuine quorum-signed decision first, then a forgery that copies its aggregate signature bytes
		good, ok := f.forge(instance, "valid", f.fc.Signers, nil)
		if !ok {
			panic("first decision must be valid")
		}
		_, _ = f.host.ReceiveDecision(bg, good)
		forged := *good
		switch f.fc.Kind {
		case "valid-then-reuse-signature-other-value":
			v := good.Vote.Value
			forged.Vote.Value = &gpbft.ECChain{TipSets: append(append([]*gpbft.TipSet{}, v.TipSets...), &gpbft.TipSet{Epoch: v.Head().Epoch + 1, Key: []byte("never-signed"), PowerTable: v.Head().PowerTable})}
		case "valid-then-reuse-signature-other-signers":
			forged.Signers = vfix.Bitfield(f.fc.Signers[:len(f.fc.Signers)-1])
		}
		*f.expected = true
		_, _ = f.host.ReceiveDecision(bg, &forged)
		return nil
	}
	j, valid := f.forge(instance, f.fc.Kind, f.fc.Signers, nil)
	*f.expected = !valid
	_, _ = f.host.ReceiveDecision(bg, j)
	return nil
}

// AllowMessage is the adversary's per-delivery hook. For the "last-…" kinds the forger watches instance 0 and, as
// soon as exactly one honest participant is still undecided, reports a forged decision (for the value the others
// decided, so that nothing but the proof is wrong) in that participant's name: the forged decision is the one
// that completes the instance.
func (f *forger) AllowMessage(_ gpbft.ActorID, _ gpbft.ActorID, _ gpbft.GMessage) bool {
	if f.fc.Disagree {
		_ = f.ReceiveMessage(bg, nil) // the overwrite of an honest decision is attempted at every delivery
		return true
	}
	if !strings.HasPrefix(f.fc.Kind, "last-") || f.over {
		return true
	}
	s := *f.simRef
	inst := s.GetInstance(0)
	if inst == nil {
		return true
	}
	var undecided []gpbft.ActorID
	var value *gpbft.ECChain
	for _, id := range s.ListParticipantIDs() {
		if id == f.id {
			continue
		}
		if d := inst.GetDecision(id); d == nil {
			undecided = append(undecided, id)
		} else {
			value = d
		}
	}
	if len(undecided) != 1 || value == nil {
		return true
	}
	f.over = true
	kind, signers := "bad-aggregate", f.fc.Signers
	if f.fc.Kind == "last-underpowered" {
		kind, signers = "subset", f.fc.Signers[:1]
	}
	j, valid := f.forge(0, kind, signers, value)
	if valid {
		panic("forged decision unexpectedly valid")
	}
	inst.NotifyDecision(undecided[0], j)
	*f.expected = true
	*f.note = fmt.Sprintf("participant %d, the last one undecided, got a forged (%s) decision for %s reported in its name", undecided[0], kind, value)
	return true
}

func (f *forger) ReceiveMessage(_ context.Context, _ gpbft.ValidatedMessage) error {
	if !f.fc.Disagree || f.over {
		return nil
	}
	s := *f.simRef
	inst := s.GetInstance(0)
	if inst == nil {
		return nil
	}
	// the victim: an honest participant that has decided while another one has not (so the run goes on)
	var victim gpbft.ActorID
	var d *gpbft.ECChain
	undecided := 0
	for _, id := range s.ListParticipantIDs() {
		if id == f.id {
			continue
		}
		if dd := inst.GetDecision(id); dd == nil {
			undecided++
		} else if d == nil {
			victim, d = id, dd
		}
	}
	if d != nil && undecided > 0 {
		// overwrite the victim's recorded decision by a different, fully valid (quorum-signed) decision
		all := make([]int, len(inst.PowerTable.Entries))
		for i := range all {
			all[i] = i
		}
		other := inst.BaseChain.BaseChain() // the bare base differs from what honest participants decide here
		if d.Eq(other) {
			return nil
		}
		j, valid := f.forge(0, "valid", all, &gpbft.ECChain{TipSets: []*gpbft.TipSet{inst.BaseChain.Head()}})
		if !valid {
			panic("forged decision unexpectedly invalid")
		}
		inst.NotifyDecision(victim, j)
		f.over = true
		*f.expected = true
		*f.note = fmt.Sprintf("victim %d decided %s, record overwritten with quorum-signed %s", victim, d, j.Vote.Value)
	}
	return nil
}

func runSimCase(fc forgeCase) (gotErr error, mustErr bool, note string) {
	var s *sim.Simulation
	expected := false
	base := &gpbft.ECChain{TipSets: []*gpbft.TipSet{{Epoch: 0, Key: []byte("genesis"), PowerTable: gpbft.MakeCid([]byte("pt"))}}}
	opts := []sim.Option{
		sim.WithSigningBackend(signing.NewFakeBackend()),
		sim.WithBaseChain(base),
		sim.WithGpbftOptions(gpbft.WithDelta(200*time.Millisecond), gpbft.WithDeltaBackOffExponent(1.3), gpbft.WithMaxCachedMessagesPerInstance(64)),
		sim.WithAdversary(func(id gpbft.ActorID, host adversary.Host) *adversary.Adversary {
			return &adversary.Adversary{
				Receiver: &forger{host: host, id: id, fc: fc, simRef: &s, expected: &expected, note: &note},
				Power:    gpbft.NewStoragePower(fc.AdvPower),
				ID:       id,
			}
		}),
	}
	for _, p := range fc.Powers {
		opts = append(opts, sim.AddHonestParticipants(1, sim.NewUniformECChainGenerator(17, 1, 3), sim.UniformStoragePower(gpbft.NewStoragePower(p))))
	}
	var err error
	s, err = sim.NewSimulation(opts...)
	if err != nil {
		panic(err)
	}
	gotErr = s.Run(1, 20)
	return gotErr, expected, note
}

func runC19Sim(chk *vcommon.Check, thorough bool) {
	tables := []struct {
		powers []int64
		adv    int64
	}{
		{[]int64{1, 1}, 1},                      // 3 members equal
		{[]int64{1, 1, 1}, 1},                   // 4 members equal
		{[]int64{4, 3, 2}, 3},                   // weighted
		{[]int64{1000000, 1000000, 1000000}, 1}, // adversary with zero scaled power
	}
	n := 0
	for _, tb := range tables {
		members := len(tb.powers) + 1
		var cases []forgeCase
		all := make([]int, members)
		for i := range all {
			all[i] = i
		}
		for _, k := range []string{"valid", "wrong-instance", "wrong-phase", "wrong-round", "empty", "wrong-base", "bad-aggregate", "valid-then-reuse-signature-other-value", "valid-then-reuse-signature-other-signers", "last-underpowered", "last-bad-aggregate"} {
			cases = append(cases, forgeCase{Powers: tb.powers, AdvPower: tb.adv, Kind: k, Signers: all})
		}
		for mask := 1; mask < 1<<members; mask++ {
			var idx []int
			for i := 0; i < members; i++ {
				if mask&(1<<i) != 0 {
					idx = append(idx, i)
				}
			}
			cases = append(cases, forgeCase{Powers: tb.powers, AdvPower: tb.adv, Kind: "subset", Signers: idx})
		}
		cases = append(cases, forgeCase{Powers: tb.powers, AdvPower: tb.adv, Kind: "valid", Signers: all, Disagree: true})
		for _, fc := range cases {
			n++
			err, mustErr, note := runSimCase(fc)
			chk.Distinct(fmt.Sprintf("%v/%s/%v/%v", fc.Powers, fc.Kind, fc.Signers, fc.Disagree))
			rep := map[string]any{"kind": "c19-sim", "case": fc}
			switch {
			case mustErr && err == nil:
				fp := "sim-accepts-" + fc.Kind
				if fc.Kind == "subset" || fc.Kind == "valid" {
					fp = "sim-decision-underpowered-accepted"
				}
				if fc.Disagree {
					fp = "sim-misses-honest-disagreement"
				}
				chk.Violation(fp, fmt.Sprintf("sim.Run returned nil although %s (case %+v) %s", describeForge(fc), fc, note), rep)
			case !mustErr && err != nil && !fc.Disagree && !strings.HasPrefix(fc.Kind, "last-"):
				chk.Violation("sim-rejects-valid-decision", fmt.Sprintf("sim.Run failed on a valid quorum-signed decision (case %+v): %v", fc, err), rep)
			case fc.Disagree && !mustErr:
				chk.Add("disagreement_not_injected", 1)
			case strings.HasPrefix(fc.Kind, "last-") && !mustErr:
				chk.Add("last_decision_not_injected", 1)
			}
		}
		chk.Sample(cases[len(cases)-2])
	}
	chk.Add("evaluations", int64(n))
	chk.Set("sim_cases", n)
}

func describeForge(fc forgeCase) string {
	switch fc.Kind {
	case "subset":
		return fmt.Sprintf("the decision is signed only by table indices %v, which is no strong quorum of the instance's power table", fc.Signers)
	case "valid":
		return "an honest participant's recorded decision differs from the others'"
	default:
		return "the reported decision has " + fc.Kind
	}
}

// ---- part (b): certchain committee rule vs the node's ------------------------------------------------------

type ccCase struct {
	Lookback uint64 `json:"committee_lookback"`
	Initial  uint64 `json:"initial_instance"`
	Length   uint64 `json:"length"`
	Seed     int64  `json:"seed"`
}

func runC19CertChain(chk *vcommon.Check, thorough bool) {
	keys := vfix.NewKeys(16)
	env := &c15env{keys: keys}
	n := 0
	length := uint64(12)
	if thorough {
		length = 15
	}
	seeds := []int64{1, 2}
	if thorough {
		seeds = []int64{1, 2, 3, 4, 5}
	}
	for _, lb := range []uint64{3, 5, 10} { // certchain needs look-back >= 3 to generate at all
		for _, init := range []uint64{0, 7} {
			for _, seed := range seeds {
				cc := ccCase{lb, init, length, seed}
				m := baseManifest()
				m.CommitteeLookback = lb
				m.InitialInstance = init
				// a long linear EC with evolving tables; proposals may be up to 127 tipsets each
				e := newTreeEC(keys, ecStart, ecPeriod, evolvingTable(keys))
				cur := e.add("m", 0, nil)
				for ep := int64(1); ep <= int64(length+2)*130; ep++ {
					cur = e.add("m", ep, cur)
				}
				e.head = cur
				gen, err := certchain.New(certchain.WithEC(e), certchain.WithManifest(m), certchain.WithSignVerifier(keys), certchain.WithSeed(seed))
				if err != nil {
					panic(err)
				}
				rep := map[string]any{"kind": "c19-certchain", "case": cc}
				boot := e.byKey[fmt.Sprintf("m/%d", m.BootstrapEpoch-m.EC.Finality)]
				// the same generator object is used for two chains in a row (the second differs: the generator's random
				// proposal lengths move on): what it derives must follow the chain it is working on
				for pass := 0; pass < 2 && chk.Violations() == 0; pass++ {
					crts, err := gen.Generate(bg, length)
					if err != nil {
						chk.Violation("certchain-generate-error", fmt.Sprintf("%+v: Generate (chain #%d of this generator): %v", cc, pass+1, err), rep)
						break
					}
					ruleTable := func(i uint64) *mts {
						if i < init+lb {
							return boot
						}
						if k := i - lb - init; k < uint64(len(crts)) {
							return e.byKey[string(crts[k].ECChain.Head().Key)]
						}
						return nil
					}
					// the node: a cert store holding these certificates
					store := env.newStoreFor(e, m)
					storeOK := true
					for _, c := range crts {
						if err := store.Put(bg, c); err != nil {
							storeOK = false
							break
						}
					}
					in := f3.VerifNewInputs(m, store, e, keys, clock.NewMock())
					for i := init; i < init+length; i++ {
						n++
						// what the certificate itself commits to: the committee of the next instance by the node rule
						if nx := ruleTable(i + 1); nx != nil {
							if c := crts[i-init]; c.SupplementalData.PowerTable != vfix.TableCID(vfix.Canon(nx.table)) {
								chk.Violation("certchain-certificate-commits-to-wrong-committee", fmt.Sprintf("%+v (chain #%d of this generator): the certificate of instance %d does not commit to the table at the head finalized %d instances before instance %d", cc, pass+1, i, lb, i+1), rep)
								break
							}
						}
						got, err := gen.GetCommittee(bg, i)
						if err != nil {
							continue // beyond what the generator can answer
						}
						want := ruleTable(i)
						chk.Distinct(fmt.Sprintf("cc%d/%d/%d/%d/%d", lb, init, seed, pass, i))
						if !got.PowerTable.Entries.Equal(vfix.Canon(want.table)) || !bytes.Equal(got.Beacon, want.beacon) {
							chk.Violation("certchain-lookback-differs-from-node-rule", fmt.Sprintf("%+v (chain #%d of this generator): certchain committee for instance %d is not the table/beacon at the head finalized %d instances earlier (instance %d, head %s): beacon %q want %q", cc, pass+1, i, lb, i-lb, want, got.Beacon, want.beacon), rep)
							break
						}
						if storeOK {
							ng, nerr := in.GetCommittee(bg, i)
							if nerr == nil && (!ng.PowerTable.Entries.Equal(got.PowerTable.Entries) || !bytes.Equal(ng.Beacon, got.Beacon)) {
								chk.Violation("certchain-lookback-differs-from-node-rule", fmt.Sprintf("%+v: certchain and the node's consensus inputs derive different committees for instance %d over the same EC and certificates (beacon %q vs node %q)", cc, i, got.Beacon, ng.Beacon), rep)
								break
							}
						}
					}
					// the producer itself must accept a suffix of what it generated (callers re-validate chains on the
					// generator that produced them), and keep deriving committees by the rule afterwards
					if chk.Violations() == 0 && len(crts) > 5 {
						if err := gen.Validate(bg, crts[5:]); err != nil {
							chk.Violation("certchain-rejects-own-chain", fmt.Sprintf("%+v (chain #%d of this generator): the producer's Validate rejects the suffix from its 6th certificate of the chain it just generated: %v", cc, pass+1, err), rep)
						} else {
							for i := init; i < init+length; i++ {
								got, err := gen.GetCommittee(bg, i)
								if err != nil {
									continue
								}
								if want := ruleTable(i); !got.PowerTable.Entries.Equal(vfix.Canon(want.table)) || !bytes.Equal(got.Beacon, want.beacon) {
									chk.Violation("certchain-lookback-differs-from-node-rule", fmt.Sprintf("%+v (chain #%d of this generator): after re-validating a suffix of its own chain the producer's committee for instance %d is no longer the table/beacon at the head finalized %d instances earlier", cc, pass+1, i, lb), rep)
									break
								}
							}
						}
					}
					// a fresh generator over the same EC and manifest must accept what this one generated
					if chk.Violations() == 0 {
						fresh, err := certchain.New(certchain.WithEC(e), certchain.WithManifest(m), certchain.WithSignVerifier(keys), certchain.WithSeed(seed+100))
						if err != nil {
							panic(err)
						}
						if err := fresh.Validate(bg, crts); err != nil {
							chk.Violation("certchain-rejects-own-chain", fmt.Sprintf("%+v (chain #%d of this generator): a fresh generator's Validate rejects the generated chain: %v", cc, pass+1, err), rep)
						}
					}
				}
				chk.Sample(cc)
			}
		}
	}
	chk.Add("evaluations", int64(n))
	chk.Set("certchain_committee_cases", n)
}
