package main

// C03, host half: a decision reported by the participant is turned into a finality certificate by the node
// (host.go saveDecision: committee of the instance, committee of the next one, power-table delta, certificate,
// self-validation, store).  Every history of decisions of a bounded shape is pushed through the production
// routine over a model EC with an evolving power table and the committee look-back rule; the resulting
// certificate must exist, carry exactly the delta between the two committees, be accepted by an independent
// validator that holds the same power table (chained from the first instance), and be the store's latest.

import (
	"fmt"

	f3 "github.com/filecoin-project/go-f3"
	"github.com/filecoin-project/go-f3/certs"
	"github.com/filecoin-project/go-f3/gpbft"
	"github.com/filecoin-project/go-f3/internal/clock"
	"github.com/filecoin-project/go-f3/internal/verif/vcommon"
	"github.com/filecoin-project/go-f3/internal/verif/vfix"
)

type c03case struct {
	Lookback uint64 `json:"committee_lookback"`
	Initial  uint64 `json:"initial_instance"`
	Steps    []int  `json:"tipsets_finalized_per_instance"` // 0 = the decision is the base alone
}

func runC03Host(chk *vcommon.Check, thorough bool) {
	env := &c15env{keys: vfix.NewKeys(16)}
	maxLen := 6
	if thorough {
		maxLen = 8
	}
	var cases []c03case
	var rec func(prefix []int)
	rec = func(prefix []int) {
		if len(prefix) > 0 {
			for _, lb := range []uint64{2, 3, 5} {
				for _, init := range []uint64{0, 7} {
					cases = append(cases, c03case{lb, init, append([]int{}, prefix...)})
				}
			}
		}
		if len(prefix) == maxLen {
			return
		}
		for _, st := range []int{0, 1, 2} {
			rec(append(prefix, st))
		}
	}
	rec(nil)
	n := 0
	for _, c := range cases {
		// only complete histories of each length are distinct work: a prefix is covered by its extensions, but each
		// is cheap, and running them all keeps the first counterexample the shortest
		if fp, what := env.checkSaveDecisions(c); fp != "" {
			chk.Violation(fp, what, map[string]any{"kind": "c03-host", "case": c})
			break
		}
		n += len(c.Steps)
		chk.Distinct(fmt.Sprintf("%d/%d/%v", c.Lookback, c.Initial, c.Steps))
	}
	chk.Add("evaluations", int64(n))
	chk.Set("histories", len(cases))
	chk.Set("decisions_saved", n)
	chk.Set("states", n)
	chk.Set("transitions", n)
	chk.Sample(c03case{2, 7, []int{1, 0, 2, 0}})
}

func (env *c15env) checkSaveDecisions(c c03case) (string, string) {
	e := newTreeEC(env.keys, ecStart, ecPeriod, evolvingTable(env.keys))
	m := baseManifest()
	m.CommitteeLookback = c.Lookback
	m.InitialInstance = c.Initial
	total := int64(8)
	for _, s := range c.Steps {
		total += int64(s)
	}
	cur := e.add("m", 0, nil)
	for ep := int64(1); ep <= total; ep++ {
		cur = e.add("m", ep, cur)
	}
	e.head = cur
	boot := e.byKey[fmt.Sprintf("m/%d", m.BootstrapEpoch-m.EC.Finality)]
	var heads []*mts
	committee := func(i uint64) gpbft.PowerEntries {
		if i < c.Initial+c.Lookback {
			return vfix.Canon(boot.table)
		}
		return vfix.Canon(heads[i-c.Lookback-c.Initial].table)
	}
	store := env.newStoreFor(e, m)
	clk := clock.NewMock()
	clk.Set(e.head.ts.Add(2 * ecPeriod))
	prev := boot
	// the independent validator's running state
	valTable := vfix.Canon(boot.table)
	var valBase *gpbft.TipSet
	for j, step := range c.Steps {
		inst := c.Initial + uint64(j)
		ts := []*gpbft.TipSet{{Epoch: prev.epoch, Key: prev.key, PowerTable: vfix.TableCID(prev.table)}}
		h := prev
		for s := 1; s <= step; s++ {
			h = e.byKey[fmt.Sprintf("m/%d", prev.epoch+int64(s))]
			ts = append(ts, &gpbft.TipSet{Epoch: h.epoch, Key: h.key, PowerTable: vfix.TableCID(h.table)})
		}
		heads = append(heads, h)
		curT, nextT := committee(inst), committee(inst+1)
		payload := gpbft.Payload{Instance: inst, Round: 0, Phase: gpbft.DECIDE_PHASE,
			SupplementalData: gpbft.SupplementalData{PowerTable: vfix.TableCID(nextT)}, Value: &gpbft.ECChain{TipSets: ts}}
		decision := env.keys.Justify(m.NetworkName, curT, payload, vfix.MinimalQuorum(curT))
		where := fmt.Sprintf("%+v: decision of instance %d (%d new tipsets)", c, inst, step)
		cert, err := f3.VerifSaveDecision(bg, m, store, e, env.keys, clk, decision)
		if err != nil {
			return "decision-not-turned-into-certificate", fmt.Sprintf("%s: saveDecision failed: %v", where, err)
		}
		want := certs.MakePowerTableDiff(curT, nextT)
		if fmt.Sprint(cert.PowerTableDelta) != fmt.Sprint(want) {
			return "certificate-wrong-power-delta", fmt.Sprintf("%s: certificate delta %v, committees of instances %d and %d differ by %v", where, cert.PowerTableDelta, inst, inst+1, want)
		}
		next, _, nt, err := certs.ValidateFinalityCertificates(env.keys, m.NetworkName, valTable, inst, valBase, cert)
		if err != nil || next != inst+1 {
			return "certificate-rejected-by-independent-validator", fmt.Sprintf("%s: a validator holding the committee of instance %d rejects the certificate (next=%d): %v", where, inst, next, err)
		}
		valTable, valBase = nt, cert.ECChain.Head()
		if !valTable.Equal(nextT) {
			return "certificate-wrong-power-delta", fmt.Sprintf("%s: applying the certificate's delta does not yield the committee of instance %d", where, inst+1)
		}
		if l := store.Latest(); l == nil || l.GPBFTInstance != inst {
			return "certificate-not-stored", fmt.Sprintf("%s: not the certificate store's latest afterwards", where)
		}
		prev = h
	}
	return "", ""
}
