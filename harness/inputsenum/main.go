// inputsenum — C15 (proposals and committees derived by the node) and C19 (faithfulness of the test
// tooling: simulator oracle, certchain committee rule): exhaustive enumeration of bounded input spaces
// against independent reference models.
package main

import (
	"flag"
	"fmt"
	"os"

	"github.com/filecoin-project/go-f3/internal/verif/vcommon"
)

func main() {
	prop := flag.String("prop", "", "C15 or C19")
	replay := flag.String("replay", "", "replay artefact (the enumeration is deterministic: the full check is re-run)")
	flag.Parse()
	_ = replay
	thorough := vcommon.Thorough()
	switch *prop {
	case "C15":
		chk := vcommon.NewCheck("C15", "exploration")
		runC15(chk, thorough)
		chk.Set("exhaustive", chk.Violations() == 0)
		chk.Set("rule", "all EC block trees over <=6 (thorough 7) epochs (null rounds, one fork at every point/length<=3, head on main/fork/early, base = bootstrap or any tipset via a stored certificate) x head-lookback {0,1,4} x proposal length {1,2,5,128} x clock {stale,fresh}, plus 300-epoch linear chains; all honest certificate histories (look-back {2,3,5}, initial {0,7}, 0..8 certificates, 0-2 tipsets each) with every instance's committee and the proposal of every instance (also those behind the store's latest certificate); distinct_nontrivial counts distinct (proposal length, descends) classes and committee queries")
		chk.Assume("model EC backend (explicit block tree) and in-memory cert store; fake signing backend")
		chk.Finish()
	case "C19":
		chk := vcommon.NewCheck("C19", "exploration")
		runC19Sim(chk, thorough)
		runC19CertChain(chk, thorough)
		chk.Set("exhaustive", true)
		chk.Set("rule", "every forged decision shape (wrong instance/phase/round/empty/wrong base/bad aggregate; reported at start, after a valid one, or in the name of the last undecided participant so that it completes the instance) and every signer subset of 3- and 4-member tables (equal, weighted, zero-scaled-power member) injected through the sim adversary host interface, plus an overwritten honest decision; certchain committees and certificate commitments for every instance of two chains generated in a row by one generator (look-back {3,5,10}, initial {0,7}), re-validated by a fresh generator, against the node rule and the node's consensus-inputs component")
		chk.Assume("sim latency model default; fake signing backend; model EC backend for certchain")
		chk.Finish()
	case "C03":
		// auxiliary pass of C03 (run by ./check with VERIF_SIDE=host before engine E1 decides the participant half)
		chk := vcommon.NewCheck("C03", "model_checking")
		runC03Host(chk, thorough)
		chk.Set("exhaustive", chk.Violations() == 0)
		chk.Set("rule", "every history of <=6 (thorough 8) decisions, each finalizing 0, 1 or 2 new tipsets, x committee look-back {2,3,5} x initial instance {0,7}, over a model EC whose power table changes every epoch (members joining, leaving, re-keyed): each decision through the production gpbftHost.saveDecision; the certificate must carry the delta between the committees of the instance and of the next one, chain-validate on an independent validator, and be the store's latest")
		chk.Assume("model EC backend and in-memory certificate store; fake signing backend; decisions signed by the minimal strong quorum of the instance's committee")
		chk.Finish()
	default:
		fmt.Fprintln(os.Stderr, "inputsenum: -prop must be C15, C19 or C03")
		os.Exit(2)
	}
}
