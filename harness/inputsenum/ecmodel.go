package main

import (
	"context"
	"fmt"
	"time"

	"github.com/filecoin-project/go-f3/ec"
	"github.com/filecoin-project/go-f3/gpbft"
	"github.com/filecoin-project/go-f3/internal/verif/vfix"
)

// mts is one tipset of the explicit model block tree.
type mts struct {
	key    []byte
	epoch  int64
	parent *mts
	beacon []byte
	ts     time.Time
	table  gpbft.PowerEntries
}

func (t *mts) Key() gpbft.TipSetKey { return t.key }
func (t *mts) Beacon() []byte       { return t.beacon }
func (t *mts) Epoch() int64         { return t.epoch }
func (t *mts) Timestamp() time.Time { return t.ts }
func (t *mts) String() string       { return fmt.Sprintf("%s@%d", t.key, t.epoch) }

var _ ec.TipSet = (*mts)(nil)

// treeEC is an explicit block tree implementing ec.Backend: null rounds, forks, an arbitrary head.
type treeEC struct {
	byKey  map[string]*mts
	head   *mts
	start  time.Time
	period time.Duration
	keys   vfix.Keys
	tableF func(branch string, epoch int64) gpbft.PowerEntries
	// lazy linear extension (for the certchain scenarios): epochs beyond the explicit tree up to lazyHead
	lazyHead int64
}

var _ ec.Backend = (*treeEC)(nil)

func newTreeEC(keys vfix.Keys, start time.Time, period time.Duration, tableF func(string, int64) gpbft.PowerEntries) *treeEC {
	return &treeEC{byKey: map[string]*mts{}, start: start, period: period, keys: keys, tableF: tableF}
}

func (e *treeEC) add(branch string, epoch int64, parent *mts) *mts {
	t := &mts{
		key:    []byte(fmt.Sprintf("%s/%d", branch, epoch)),
		epoch:  epoch,
		parent: parent,
		beacon: []byte(fmt.Sprintf("beacon-%s-%d", branch, epoch)),
		ts:     e.start.Add(time.Duration(epoch) * e.period),
		table:  e.tableF(branch, epoch),
	}
	e.byKey[string(t.key)] = t
	return t
}

func (e *treeEC) GetTipsetByEpoch(_ context.Context, epoch int64) (ec.TipSet, error) {
	if e.head == nil || epoch > e.head.epoch {
		return nil, fmt.Errorf("epoch %d does not exist yet", epoch)
	}
	for t := e.head; t != nil; t = t.parent {
		if t.epoch <= epoch {
			return t, nil
		}
	}
	return nil, fmt.Errorf("no tipset at or before epoch %d", epoch)
}

func (e *treeEC) GetTipset(_ context.Context, k gpbft.TipSetKey) (ec.TipSet, error) {
	if t, ok := e.byKey[string(k)]; ok {
		return t, nil
	}
	return nil, fmt.Errorf("unknown tipset %q", k)
}

func (e *treeEC) GetHead(context.Context) (ec.TipSet, error) {
	if e.head == nil {
		return nil, fmt.Errorf("no head")
	}
	return e.head, nil
}

func (e *treeEC) GetParent(_ context.Context, t ec.TipSet) (ec.TipSet, error) {
	m, ok := e.byKey[string(t.Key())]
	if !ok || m.parent == nil {
		return nil, fmt.Errorf("no parent of %s", t)
	}
	return m.parent, nil
}

func (e *treeEC) GetPowerTable(_ context.Context, k gpbft.TipSetKey) (gpbft.PowerEntries, error) {
	if t, ok := e.byKey[string(k)]; ok {
		return vfix.CloneEntries(t.table), nil
	}
	return nil, fmt.Errorf("unknown tipset %q", k)
}

func (e *treeEC) Finalize(context.Context, gpbft.TipSetKey) error { return nil }

// evolvingTable returns a table function over `n` members whose powers, membership and keys change with
// the epoch (and differ on fork branches), always in canonical order.
func evolvingTable(keys vfix.Keys) func(string, int64) gpbft.PowerEntries {
	return func(branch string, epoch int64) gpbft.PowerEntries {
		salt := int64(0)
		if branch != "m" {
			salt = 7
		}
		var es gpbft.PowerEntries
		for id := uint64(1); id <= 5; id++ {
			// member 5 joins at epoch 3 and leaves at epoch 9; member 2 is re-keyed from epoch 6
			if id == 5 && (epoch < 3 || epoch >= 9) {
				continue
			}
			keyIdx := int(id)
			if id == 2 && epoch >= 6 {
				keyIdx = 12
			}
			p := 100 + int64(id)*10 + (epoch*int64(id))%17 + salt
			es = append(es, keys.Entry(id, gpbft.NewStoragePower(p), keyIdx))
		}
		return vfix.Canon(es)
	}
}
