// encenum — C14: signed bytes bind every field (all chain lengths x all single-field perturbations), chain
// keys agree across the three ways of computing them, every codec type round-trips at boundary shapes, and
// decoding every truncation and every small deviation of valid encodings fails cleanly (no panic, bounded
// allocation).
package main

import (
	"bytes"
	"flag"
	"fmt"
	"io"
	"runtime"
	"sync"
	"sync/atomic"

	"github.com/filecoin-project/go-f3/certexchange"
	"github.com/filecoin-project/go-f3/certs"
	"github.com/filecoin-project/go-f3/certstore"
	"github.com/filecoin-project/go-f3/chainexchange"
	"github.com/filecoin-project/go-f3/gpbft"
	"github.com/filecoin-project/go-f3/internal/encoding"
	"github.com/filecoin-project/go-f3/internal/verif/vcommon"
	"github.com/filecoin-project/go-f3/internal/verif/vfix"
	"github.com/klauspost/compress/zstd"
)

var (
	chk  *vcommon.Check
	keys = vfix.NewKeys(8)
	tcid = vfix.TableCID(nil)
	cid2 = gpbft.MakeCid([]byte("another power table"))
)

func mkChain(n int) *gpbft.ECChain {
	ts := make([]*gpbft.TipSet, n)
	for i := range ts {
		ts[i] = &gpbft.TipSet{Epoch: int64(100 + 2*i), Key: []byte(fmt.Sprintf("tipset-key-%03d", i)), PowerTable: tcid}
		ts[i].Commitments[0] = byte(i)
	}
	return &gpbft.ECChain{TipSets: ts}
}

func cloneChain(c *gpbft.ECChain) *gpbft.ECChain {
	ts := make([]*gpbft.TipSet, len(c.TipSets))
	for i, t := range c.TipSets {
		x := *t
		x.Key = append([]byte{}, t.Key...)
		ts[i] = &x
	}
	return &gpbft.ECChain{TipSets: ts}
}

// ---- part 1: signed bytes ------------------------------------------------------------------------------------

func signedBytes(thorough bool) {
	var evals atomic.Int64
	var wg sync.WaitGroup
	var stop atomic.Bool
	var mu sync.Mutex
	var next atomic.Int64
	supp := gpbft.SupplementalData{PowerTable: tcid}
	nn := gpbft.NetworkName("net")
	for w := 0; w < runtime.NumCPU(); w++ {
		wg.Add(1)
		go func() {
			defer wg.Done()
			for !stop.Load() {
				n := int(next.Add(1))
				if n > gpbft.ChainMaxLen {
					return
				}
				base := mkChain(n)
				seen := map[string]string{}
				add := func(desc string, p gpbft.Payload, net gpbft.NetworkName) bool {
					evals.Add(1)
					b := string(p.MarshalForSigning(net))
					if prev, dup := seen[b]; dup {
						mu.Lock()
						chk.Violation("signed-bytes-collision", fmt.Sprintf("chain length %d: the bytes to sign are identical for [%s] and [%s]", n, prev, desc), map[string]any{"kind": "signed-bytes", "length": n, "a": prev, "b": desc})
						mu.Unlock()
						stop.Store(true)
						return false
					}
					seen[b] = desc
					// deterministic
					if b != string(p.MarshalForSigning(net)) {
						mu.Lock()
						chk.Violation("signed-bytes-nondeterministic", desc, map[string]any{"kind": "signed-bytes", "length": n})
						mu.Unlock()
						stop.Store(true)
						return false
					}
					return true
				}
				pl := func(c *gpbft.ECChain) gpbft.Payload {
					return gpbft.Payload{Instance: 7, Round: 2, Phase: gpbft.COMMIT_PHASE, SupplementalData: supp, Value: c}
				}
				if !add("original", pl(base), nn) {
					return
				}
				for i := 0; i < n; i++ {
					for f := 0; f < 5; f++ {
						c := cloneChain(base)
						t := c.TipSets[i]
						var d string
						switch f {
						case 0:
							t.Epoch++
							d = "epoch+1"
						case 1:
							t.Key[len(t.Key)-1] ^= 1
							d = "key byte"
						case 2:
							t.PowerTable = cid2
							d = "power table CID"
						case 3:
							t.Commitments[31] ^= 0x40
							d = "commitments byte"
						case 4:
							t.Key = append(t.Key, 0)
							d = "key extended by a zero byte"
						}
						if !add(fmt.Sprintf("tipset %d %s", i, d), pl(c), nn) {
							return
						}
					}
					if i+1 < n {
						c := cloneChain(base)
						c.TipSets[i], c.TipSets[i+1] = c.TipSets[i+1], c.TipSets[i]
						if !add(fmt.Sprintf("tipsets %d and %d swapped", i, i+1), pl(c), nn) {
							return
						}
					}
				}
				// length +-1
				if n > 1 {
					c := cloneChain(base)
					c.TipSets = c.TipSets[:n-1]
					if !add("last tipset removed", pl(c), nn) {
						return
					}
				}
				c := cloneChain(base)
				c.TipSets = append(c.TipSets, &gpbft.TipSet{Epoch: 9999, Key: []byte("extra"), PowerTable: tcid})
				if !add("tipset appended", pl(c), nn) {
					return
				}
				if !add("bottom", pl(&gpbft.ECChain{}), nn) {
					return
				}
				// payload fields
				p := pl(base)
				p.Instance++
				if !add("instance+1", p, nn) {
					return
				}
				p = pl(base)
				p.Round++
				if !add("round+1", p, nn) {
					return
				}
				for ph := gpbft.Phase(0); ph <= 7; ph++ {
					if ph == gpbft.COMMIT_PHASE {
						continue
					}
					p = pl(base)
					p.Phase = ph
					if !add(fmt.Sprintf("phase=%d", ph), p, nn) {
						return
					}
				}
				p = pl(base)
				p.SupplementalData.Commitments[5] ^= 1
				if !add("supplemental commitments", p, nn) {
					return
				}
				p = pl(base)
				p.SupplementalData.PowerTable = cid2
				if !add("supplemental power table", p, nn) {
					return
				}
				if !add("network name", pl(base), "net2") {
					return
				}
				// swapped instance/round values
				p = pl(base)
				p.Instance, p.Round = p.Round, p.Instance
				if !add("instance and round swapped", p, nn) {
					return
				}
			}
		}()
	}
	wg.Wait()
	// tipset keys at the CBOR header and protocol boundaries: every single-byte change must still change the signed bytes
	for _, klen := range []int{1, 23, 24, 25, 255, 256, 257, 759, gpbft.TipsetKeyMaxLen} {
		for _, n := range []int{1, 3} {
			base := mkChain(n)
			for _, t := range base.TipSets {
				t.Key = bytes.Repeat([]byte{0x33}, klen)
			}
			ref := string((&gpbft.Payload{Instance: 7, Phase: gpbft.COMMIT_PHASE, SupplementalData: supp, Value: base}).MarshalForSigning(nn))
			for ti := 0; ti < n; ti++ {
				for _, pos := range []int{0, klen / 2, klen - 2, klen - 1} {
					if pos < 0 || pos >= klen {
						continue
					}
					c := cloneChain(base)
					c.TipSets[ti].Key[pos] ^= 0x01
					evals.Add(1)
					got := string((&gpbft.Payload{Instance: 7, Phase: gpbft.COMMIT_PHASE, SupplementalData: supp, Value: c}).MarshalForSigning(nn))
					if got == ref || c.Key() == base.Key() || string(c.TipSets[ti].MarshalForSigning()) == string(base.TipSets[ti].MarshalForSigning()) {
						chk.Violation("signed-bytes-collision", fmt.Sprintf("tipset key of %d bytes: changing byte %d of tipset %d does not change the bytes to sign / the chain key", klen, pos, ti), map[string]any{"kind": "signed-bytes-keylen", "key_len": klen, "byte": pos, "tipset": ti})
						return
					}
				}
			}
		}
	}
	// VRF inputs
	seen := map[string]string{}
	for _, v := range []struct {
		d      string
		beacon []byte
		inst   uint64
		round  uint64
		nn     gpbft.NetworkName
	}{
		{"original", []byte("beacon"), 3, 1, "net"}, {"beacon byte", []byte("beacoN"), 3, 1, "net"}, {"beacon longer", []byte("beacon\x00"), 3, 1, "net"},
		{"instance+1", []byte("beacon"), 4, 1, "net"}, {"round+1", []byte("beacon"), 3, 2, "net"}, {"network", []byte("beacon"), 3, 1, "net2"},
		{"instance/round swapped", []byte("beacon"), 1, 3, "net"}, {"empty beacon", nil, 3, 1, "net"},
	} {
		evals.Add(1)
		b := string(gpbft.VerifVRFInput(v.beacon, v.inst, v.round, v.nn))
		if prev, dup := seen[b]; dup {
			chk.Violation("vrf-input-collision", fmt.Sprintf("VRF inputs identical for [%s] and [%s]", prev, v.d), map[string]any{"kind": "vrf", "a": prev, "b": v.d})
		}
		seen[b] = v.d
		sb := gpbft.SignatureBuilder{}
		_ = sb
	}
	chk.Add("evaluations", evals.Load())
	chk.Set("signed_byte_variants", evals.Load())
	chk.Sample(map[string]any{"kind": "signed-bytes", "length": 128, "perturbation": "tipset 77 commitments byte"})
}

// ---- part 2: chain keys -----------------------------------------------------------------------------------------

func chainKeys() {
	n := 0
	for l := 1; l <= gpbft.ChainMaxLen; l++ {
		c := mkChain(l)
		batch := c.KeysForPrefixes()
		all := c.AllPrefixes()
		if len(batch) != l || len(all) != l {
			chk.Violation("prefix-keys-wrong-count", fmt.Sprintf("length %d: KeysForPrefixes=%d AllPrefixes=%d", l, len(batch), len(all)), map[string]any{"kind": "keys", "length": l})
			return
		}
		for i := 0; i < l; i++ {
			n++
			direct := mkChain(i + 1).Key() // an independent chain object with the same content
			pk := c.Prefix(i).Key()
			ak := all[i].Key()
			fresh := cloneChain(all[i]).Key()
			if direct != batch[i] || direct != pk || direct != ak || direct != fresh {
				chk.Violation("chain-key-disagreement", fmt.Sprintf("length %d prefix %d: direct %x batch %x Prefix().Key() %x AllPrefixes()[i].Key() %x recomputed %x", l, i+1, direct[:4], batch[i][:4], pk[:4], ak[:4], fresh[:4]), map[string]any{"kind": "keys", "length": l, "prefix": i + 1})
				return
			}
			if all[i].Len() != i+1 || !all[i].Eq(c.Prefix(i)) {
				chk.Violation("prefix-content-wrong", fmt.Sprintf("length %d prefix %d", l, i+1), map[string]any{"kind": "keys", "length": l, "prefix": i + 1})
				return
			}
		}
		if c.Key() != batch[l-1] {
			chk.Violation("chain-key-disagreement", fmt.Sprintf("length %d: Key() differs from the last batch key", l), map[string]any{"kind": "keys", "length": l})
			return
		}
	}
	// chains are values: building a fork on top of a prefix object (however it was obtained) must leave the parent
	// and every sibling prefix what they were — content and (cached) key
	for l := 2; l <= 12; l++ {
		for _, way := range []string{"Prefix", "AllPrefixes", "KeysThenAllPrefixes"} {
			for _, grow := range []string{"Append", "Extend"} {
				for i := 0; i < l-1; i++ {
					n++
					c := mkChain(l)
					want := mkChain(l) // independent objects with the same content
					all := c.AllPrefixes()
					if way == "KeysThenAllPrefixes" {
						_ = c.Key()
						_ = c.KeysForPrefixes()
					}
					var p *gpbft.ECChain
					if way == "Prefix" {
						p = c.Prefix(i)
					} else {
						p = all[i]
					}
					_ = p.Key()
					foreign := &gpbft.TipSet{Epoch: p.Head().Epoch + 1, Key: []byte("fork-tipset"), PowerTable: tcid}
					var fork *gpbft.ECChain
					if grow == "Append" {
						fork = p.Append(foreign)
					} else {
						fork = p.Extend(foreign.Key)
					}
					rep := map[string]any{"kind": "keys", "length": l, "prefix": i + 1, "obtained_by": way, "grown_by": grow}
					wantFork := cloneChain(want.Prefix(i))
					wantFork.TipSets = append(wantFork.TipSets, &gpbft.TipSet{Epoch: foreign.Epoch, Key: foreign.Key, PowerTable: fork.Head().PowerTable})
					if !fork.Eq(wantFork) || fork.Key() != wantFork.Key() {
						chk.Violation("fork-of-prefix-wrong", fmt.Sprintf("length %d: a fork grown by %s on prefix %d (from %s) is not that prefix plus the new tipset", l, grow, i+1, way), rep)
						return
					}
					if !c.Eq(want) || c.Key() != want.Key() || cloneChain(c).Key() != want.Key() {
						chk.Violation("fork-of-prefix-rewrites-parent", fmt.Sprintf("length %d: after %s onto prefix %d (from %s) the parent chain changed (content equal: %v, cached key right: %v)", l, grow, i+1, way, c.Eq(want), c.Key() == want.Key()), rep)
						return
					}
					for j, q := range all {
						if !q.Eq(want.Prefix(j)) || q.Key() != want.Prefix(j).Key() || cloneChain(q).Key() != q.Key() {
							chk.Violation("fork-of-prefix-rewrites-sibling", fmt.Sprintf("length %d: after %s onto prefix %d (from %s) the prefix object of length %d no longer holds / is keyed by its tipsets", l, grow, i+1, way, j+1), rep)
							return
						}
					}
				}
			}
		}
	}
	if (&gpbft.ECChain{}).Key() != (gpbft.ECChainKey{}) || !(&gpbft.ECChain{}).Key().IsZero() {
		chk.Violation("bottom-key-not-zero", "", nil)
	}
	chk.Add("evaluations", int64(n))
	chk.Set("chain_key_comparisons", n)
}

// ---- part 3/4: codecs ---------------------------------------------------------------------------------------------

type codec interface {
	MarshalCBOR(io.Writer) error
	UnmarshalCBOR(io.Reader) error
}

type shape struct {
	name  string
	val   codec
	fresh func() codec
}

func bigKey() []byte { return bytes.Repeat([]byte{0xab}, gpbft.TipsetKeyMaxLen) }

func sig96() []byte { return bytes.Repeat([]byte{0x5c}, 96) }

func shapes() []shape {
	small := mkChain(2)
	longChain := mkChain(128)
	fat := mkChain(3)
	for _, t := range fat.TipSets {
		t.Key = bigKey()
	}
	supp := gpbft.SupplementalData{PowerTable: tcid}
	just := func(v *gpbft.ECChain) *gpbft.Justification {
		return &gpbft.Justification{Vote: gpbft.Payload{Instance: 3, Round: 1, Phase: gpbft.PREPARE_PHASE, SupplementalData: supp, Value: v}, Signers: vfix.Bitfield([]int{0, 2, 5}), Signature: sig96()}
	}
	table := gpbft.PowerEntries{keys.Entry(1, vfix.BigPow("1180591620717411303424"), 1), keys.Entry(2, gpbft.NewStoragePower(5), 2)}
	var bigDelta certs.PowerTableDiff
	for i := 0; i < 40; i++ {
		bigDelta = append(bigDelta, certs.PowerTableDelta{ParticipantID: gpbft.ActorID(i + 1), PowerDelta: gpbft.NewStoragePower(int64(i) - 20), SigningKey: keys.Pub(i % 8)})
	}
	var out []shape
	add := func(name string, v codec, fresh func() codec) { out = append(out, shape{name, v, fresh}) }
	add("TipSet", small.TipSets[1], func() codec { return &gpbft.TipSet{} })
	add("TipSet/760-byte key", fat.TipSets[0], func() codec { return &gpbft.TipSet{} })
	add("ECChain/2", small, func() codec { return &gpbft.ECChain{} })
	add("ECChain/bottom", &gpbft.ECChain{}, func() codec { return &gpbft.ECChain{} })
	add("ECChain/128", longChain, func() codec { return &gpbft.ECChain{} })
	add("SupplementalData", &supp, func() codec { return &gpbft.SupplementalData{} })
	add("Payload", &gpbft.Payload{Instance: 1 << 40, Round: 3, Phase: gpbft.DECIDE_PHASE, SupplementalData: supp, Value: small}, func() codec { return &gpbft.Payload{} })
	add("Payload/bottom", &gpbft.Payload{Instance: 1, Phase: gpbft.COMMIT_PHASE, SupplementalData: supp, Value: &gpbft.ECChain{}}, func() codec { return &gpbft.Payload{} })
	add("Justification", just(small), func() codec { return &gpbft.Justification{} })
	add("GMessage/quality", &gpbft.GMessage{Sender: 9, Vote: gpbft.Payload{Instance: 2, Phase: gpbft.QUALITY_PHASE, SupplementalData: supp, Value: small}, Signature: sig96()}, func() codec { return &gpbft.GMessage{} })
	add("GMessage/converge", &gpbft.GMessage{Sender: 1 << 33, Vote: gpbft.Payload{Instance: 2, Round: 4, Phase: gpbft.CONVERGE_PHASE, SupplementalData: supp, Value: small}, Signature: sig96(), Ticket: sig96(), Justification: just(small)}, func() codec { return &gpbft.GMessage{} })
	add("GMessage/128 tipsets", &gpbft.GMessage{Sender: 3, Vote: gpbft.Payload{Instance: 2, Round: 1, Phase: gpbft.PREPARE_PHASE, SupplementalData: supp, Value: longChain}, Signature: sig96(), Justification: just(longChain)}, func() codec { return &gpbft.GMessage{} })
	add("PartialGMessage", &gpbft.PartialGMessage{GMessage: &gpbft.GMessage{Sender: 3, Vote: gpbft.Payload{Instance: 2, Round: 1, Phase: gpbft.COMMIT_PHASE, SupplementalData: supp, Value: &gpbft.ECChain{}}, Signature: sig96(), Justification: just(nil)}, VoteValueKey: small.Key()}, func() codec { return &gpbft.PartialGMessage{} })
	add("PowerEntry", &table[0], func() codec { return &gpbft.PowerEntry{} })
	add("PowerEntries", &table, func() codec { return &gpbft.PowerEntries{} })
	add("PowerEntries/empty", &gpbft.PowerEntries{}, func() codec { return &gpbft.PowerEntries{} })
	add("PowerTableDelta", &bigDelta[3], func() codec { return &certs.PowerTableDelta{} })
	add("PowerTableDiff/40", &bigDelta, func() codec { return &certs.PowerTableDiff{} })
	add("FinalityCertificate", &certs.FinalityCertificate{GPBFTInstance: 77, ECChain: small, SupplementalData: supp, Signers: vfix.Bitfield([]int{1, 2, 3, 64}), Signature: sig96(), PowerTableDelta: bigDelta[:3]}, func() codec { return &certs.FinalityCertificate{} })
	add("certexchange.Request", &certexchange.Request{FirstInstance: 1 << 50, Limit: certexchange.NoLimit, IncludePowerTable: true}, func() codec { return &certexchange.Request{} })
	add("certexchange.ResponseHeader", &certexchange.ResponseHeader{PendingInstance: 12, PowerTable: table}, func() codec { return &certexchange.ResponseHeader{} })
	add("chainexchange.Message", &chainexchange.Message{Instance: 4, Chain: small, Timestamp: 1_700_000_000_123}, func() codec { return &chainexchange.Message{} })
	add("certstore.SnapshotHeader", &certstore.SnapshotHeader{Version: 1, FirstInstance: 3, LatestInstance: 900, InitialPowerTable: table}, func() codec { return &certstore.SnapshotHeader{} })
	return out
}

func shapeByName(name string) codec {
	for _, s := range shapes() {
		if s.name == name {
			return s.val
		}
	}
	panic("no shape " + name)
}

func enc(v codec) ([]byte, error) {
	var b bytes.Buffer
	err := v.MarshalCBOR(&b)
	return b.Bytes(), err
}

func roundTrips() map[string][]byte {
	encs := map[string][]byte{}
	for _, s := range shapes() {
		chk.Add("evaluations", 1)
		rep := map[string]any{"kind": "codec", "type": s.name}
		a, err := enc(s.val)
		if err != nil {
			chk.Violation("encode-error:"+s.name, err.Error(), rep)
			continue
		}
		b, _ := enc(s.val)
		if !bytes.Equal(a, b) {
			chk.Violation("encoding-nondeterministic:"+s.name, "two encodings of the same value differ", rep)
			continue
		}
		d := s.fresh()
		if err := d.UnmarshalCBOR(bytes.NewReader(a)); err != nil {
			chk.Violation("roundtrip-decode-error:"+s.name, err.Error(), rep)
			continue
		}
		c, err := enc(d)
		if err != nil || !bytes.Equal(a, c) {
			chk.Violation("roundtrip-mismatch:"+s.name, fmt.Sprintf("decode(encode(x)) re-encodes differently (%v)", err), rep)
			continue
		}
		encs[s.name] = a
		chk.Distinct("rt/" + s.name)
	}
	// typed comparison for the central types
	{
		m := shapeByName("GMessage/converge").(*gpbft.GMessage)
		a, _ := enc(m)
		var d gpbft.GMessage
		_ = d.UnmarshalCBOR(bytes.NewReader(a))
		if d.Sender != m.Sender || !d.Vote.Eq(&m.Vote) || !bytes.Equal(d.Signature, m.Signature) || !bytes.Equal(d.Ticket, m.Ticket) || d.Justification == nil || !d.Justification.Vote.Eq(&m.Justification.Vote) {
			chk.Violation("roundtrip-mismatch:GMessage-fields", "decoded GMessage differs field-wise", nil)
		}
	}
	// CBOR and ZSTD wrappers
	type enc2 struct {
		name string
		run  func() error
	}
	gm := shapeByName("GMessage/128 tipsets").(*gpbft.GMessage)
	pm := shapeByName("PartialGMessage").(*gpbft.PartialGMessage)
	cm := shapeByName("chainexchange.Message").(*chainexchange.Message)
	wrappers := []enc2{
		{"zstd/PartialGMessage", func() error {
			z, err := encoding.NewZSTD[*gpbft.PartialGMessage]()
			if err != nil {
				return err
			}
			full := &gpbft.PartialGMessage{GMessage: gm, VoteValueKey: gm.Vote.Value.Key()}
			for _, v := range []*gpbft.PartialGMessage{pm, full} {
				e1, err := z.Encode(v)
				if err != nil {
					return err
				}
				e2, _ := z.Encode(v)
				if !bytes.Equal(e1, e2) {
					return fmt.Errorf("zstd encoding not deterministic")
				}
				var d gpbft.PartialGMessage
				if err := z.Decode(e1, &d); err != nil {
					return err
				}
				a, _ := enc(v)
				b, _ := enc(&d)
				if !bytes.Equal(a, b) {
					return fmt.Errorf("zstd round trip differs")
				}
			}
			return nil
		}},
		{"zstd/chainexchange.Message", func() error {
			z, err := encoding.NewZSTD[*chainexchange.Message]()
			if err != nil {
				return err
			}
			e1, err := z.Encode(cm)
			if err != nil {
				return err
			}
			var d chainexchange.Message
			if err := z.Decode(e1, &d); err != nil {
				return err
			}
			if d.Instance != cm.Instance || d.Timestamp != cm.Timestamp || !d.Chain.Eq(cm.Chain) {
				return fmt.Errorf("zstd round trip differs")
			}
			c := encoding.NewCBOR[*chainexchange.Message]()
			e2, err := c.Encode(cm)
			if err != nil {
				return err
			}
			var d2 chainexchange.Message
			if err := c.Decode(e2, &d2); err != nil || !d2.Chain.Eq(cm.Chain) {
				return fmt.Errorf("cbor wrapper round trip differs: %v", err)
			}
			return nil
		}},
	}
	// the largest values the protocol allows (128 tipsets x 760-byte keys; vote and justification both carrying the
	// chain), and sizes around the powers of two in between, through both wire codecs: what encodes must decode
	for _, n := range []int{1, 9, 10, 19, 20, 38, 39, 77, 78, 100, 127, 128} {
		n := n
		wrappers = append(wrappers, enc2{fmt.Sprintf("zstd+cbor/%d tipsets x 760-byte keys", n), func() error {
			big := mkChain(n)
			for _, t := range big.TipSets {
				t.Key = bigKey()
			}
			supp := gpbft.SupplementalData{PowerTable: tcid}
			g := &gpbft.GMessage{Sender: 3, Vote: gpbft.Payload{Instance: 2, Round: 1, Phase: gpbft.PREPARE_PHASE, SupplementalData: supp, Value: big}, Signature: sig96(),
				Justification: &gpbft.Justification{Vote: gpbft.Payload{Instance: 2, Round: 0, Phase: gpbft.PREPARE_PHASE, SupplementalData: supp, Value: big}, Signers: vfix.Bitfield([]int{0, 2, 5}), Signature: sig96()}}
			full := &gpbft.PartialGMessage{GMessage: g, VoteValueKey: big.Key()}
			raw, err := enc(full)
			if err != nil {
				return err
			}
			for name, c := range map[string]encoding.EncodeDecoder[*gpbft.PartialGMessage]{"zstd": mustZ[*gpbft.PartialGMessage](), "cbor": encoding.NewCBOR[*gpbft.PartialGMessage]()} {
				e1, err := c.Encode(full)
				if err != nil {
					return fmt.Errorf("%s: a valid message of %d bytes does not encode: %w", name, len(raw), err)
				}
				var d gpbft.PartialGMessage
				if err := c.Decode(e1, &d); err != nil {
					return fmt.Errorf("%s: a valid message of %d bytes (CBOR) encodes but does not decode: %w", name, len(raw), err)
				}
				if b, _ := enc(&d); !bytes.Equal(raw, b) {
					return fmt.Errorf("%s: round trip of a %d-byte message differs", name, len(raw))
				}
			}
			m := &chainexchange.Message{Instance: 4, Chain: big, Timestamp: 1_700_000_000_123}
			rawM, _ := enc(m)
			for name, c := range map[string]encoding.EncodeDecoder[*chainexchange.Message]{"zstd": mustZ[*chainexchange.Message](), "cbor": encoding.NewCBOR[*chainexchange.Message]()} {
				e1, err := c.Encode(m)
				if err != nil {
					return fmt.Errorf("%s: a valid chain message of %d bytes does not encode: %w", name, len(rawM), err)
				}
				var d chainexchange.Message
				if err := c.Decode(e1, &d); err != nil {
					return fmt.Errorf("%s: a valid chain message of %d bytes (CBOR) encodes but does not decode: %w", name, len(rawM), err)
				}
				if !d.Chain.Eq(big) || d.Instance != m.Instance || d.Timestamp != m.Timestamp {
					return fmt.Errorf("%s: round trip of a %d-byte chain message differs", name, len(rawM))
				}
			}
			return nil
		}})
	}
	for _, w := range wrappers {
		chk.Add("evaluations", 1)
		if err := w.run(); err != nil {
			chk.Violation("roundtrip-mismatch:"+w.name, err.Error(), map[string]any{"kind": "codec", "type": w.name})
		}
	}
	return encs
}

func mustZ[T encoding.CBORMarshalUnmarshaler]() encoding.EncodeDecoder[T] {
	z, err := encoding.NewZSTD[T]()
	if err != nil {
		panic(err)
	}
	return z
}

// tryDecode decodes data into a fresh value; returns a panic description if it panicked.
func tryDecode(fresh func() codec, data []byte) (panicked any) {
	defer func() {
		if r := recover(); r != nil {
			panicked = r
		}
	}()
	_ = fresh().UnmarshalCBOR(bytes.NewReader(data))
	return nil
}

const allocCap = 16 << 20

func robustness(encs map[string][]byte, thorough bool) {
	var evals atomic.Int64
	var mu sync.Mutex
	var wg sync.WaitGroup
	sem := make(chan struct{}, runtime.NumCPU())
	boundary := []byte{0x00, 0x17, 0x18, 0x1b, 0x3b, 0x40, 0x5b, 0x5f, 0x7b, 0x80, 0x9b, 0x9f, 0xa0, 0xbb, 0xc2, 0xd8, 0xf6, 0xfb, 0xff}
	for _, s := range shapes() {
		data, ok := encs[s.name]
		if !ok {
			continue
		}
		s := s
		wg.Add(1)
		sem <- struct{}{}
		go func() {
			defer wg.Done()
			defer func() { <-sem }()
			var n int64
			fail := func(fp, what string, mutated []byte) {
				mu.Lock()
				defer mu.Unlock()
				show := mutated
				if len(show) > 96 {
					show = show[:96]
				}
				chk.Violation(fp, what, map[string]any{"kind": "decode", "type": s.name, "input_prefix_hex": fmt.Sprintf("%x", show), "input_len": len(mutated)})
			}
			// every truncation
			stepT := 1
			if len(data) > 4096 {
				stepT = 7
			}
			for cut := 0; cut < len(data); cut += stepT {
				n++
				if p := tryDecode(s.fresh, data[:cut]); p != nil {
					fail("decode-panics:"+s.name, fmt.Sprintf("decoding %s truncated to %d of %d bytes panicked: %v", s.name, cut, len(data), p), data[:cut])
					return
				}
				if cut > 0 {
					// a strict prefix of a valid encoding must not decode successfully into the same type... it may, if the
					// type is a prefix code; cbor-gen tuples are length-prefixed, so it must fail.
					if err := s.fresh().UnmarshalCBOR(bytes.NewReader(data[:cut])); err == nil && cut < len(data) {
						fail("truncated-input-accepted:"+s.name, fmt.Sprintf("%s truncated to %d of %d bytes decoded without error", s.name, cut, len(data)), data[:cut])
						return
					}
				}
			}
			// 1-byte deviations: every position x every value (large encodings: the first 512 and last 64 positions x all values, the rest x boundary values)
			buf := make([]byte, len(data))
			for pos := 0; pos < len(data); pos++ {
				vals := 256
				dense := len(data) <= 4096 || pos < 512 || pos >= len(data)-64
				if !dense && !thorough && pos%11 != 0 {
					continue
				}
				for v := 0; v < vals; v++ {
					b := byte(v)
					if !dense {
						if v >= len(boundary) {
							break
						}
						b = boundary[v]
					}
					if b == data[pos] {
						continue
					}
					copy(buf, data)
					buf[pos] = b
					n++
					if p := tryDecode(s.fresh, buf); p != nil {
						fail("decode-panics:"+s.name, fmt.Sprintf("decoding %s with byte %d set to %#x panicked: %v", s.name, pos, b, p), buf)
						return
					}
				}
			}
			// 2-byte deviations on small encodings
			if len(data) < 200 {
				for i := 0; i < len(data); i++ {
					for j := i + 1; j < len(data); j++ {
						for _, bi := range boundary {
							for _, bj := range boundary {
								copy(buf, data)
								buf[i], buf[j] = bi, bj
								n++
								if p := tryDecode(s.fresh, buf); p != nil {
									fail("decode-panics:"+s.name, fmt.Sprintf("decoding %s with bytes %d,%d set to %#x,%#x panicked: %v", s.name, i, j, bi, bj, p), buf)
									return
								}
							}
						}
					}
				}
			}
			evals.Add(n)
		}()
	}
	wg.Wait()
	chk.Add("evaluations", evals.Load())
	chk.Set("decode_attempts", evals.Load())
	// allocation bound: sequentially, length headers inflated at every position of every encoding
	var ms runtime.MemStats
	var allocTests int64
	for _, s := range shapes() {
		data, ok := encs[s.name]
		if !ok || len(data) > 4096 {
			continue
		}
		buf := make([]byte, len(data)+9)
		for pos := 0; pos < len(data); pos++ {
			for _, hdr := range [][]byte{{0x5b, 0x00, 0x00, 0x00, 0x00, 0xff, 0xff, 0xff, 0xff}, {0x9b, 0x00, 0x00, 0x00, 0x00, 0xff, 0xff, 0xff, 0xff}, {0x5a, 0x7f, 0xff, 0xff, 0xff}, {0x9a, 0x00, 0xff, 0xff, 0xff}} {
				m := append(append(append(buf[:0], data[:pos]...), hdr...), data[pos+1:]...)
				runtime.ReadMemStats(&ms)
				before := ms.TotalAlloc
				p := tryDecode(s.fresh, m)
				runtime.ReadMemStats(&ms)
				allocTests++
				if p != nil {
					chk.Violation("decode-panics:"+s.name, fmt.Sprintf("decoding %s with an inflated length header at %d panicked: %v", s.name, pos, p), map[string]any{"kind": "decode-alloc", "type": s.name, "pos": pos})
					return
				}
				if d := ms.TotalAlloc - before; d > allocCap {
					chk.Violation("decode-allocates-beyond-limit:"+s.name, fmt.Sprintf("decoding %s with an inflated length header at %d allocated %d bytes (> %d)", s.name, pos, d, allocCap), map[string]any{"kind": "decode-alloc", "type": s.name, "pos": pos, "header": fmt.Sprintf("%x", hdr)})
					return
				}
			}
		}
	}
	chk.Add("evaluations", allocTests)
	chk.Set("allocation_bounded_decodes", allocTests)
	// zstd: over-expanding frames
	zw, _ := zstd.NewWriter(nil)
	for _, size := range []int{1<<20 + 1, 2 << 20, 64 << 20} {
		frame := zw.EncodeAll(make([]byte, size), nil)
		z, err := encoding.NewZSTD[*gpbft.PartialGMessage]()
		if err != nil {
			panic(err)
		}
		runtime.ReadMemStats(&ms)
		before := ms.TotalAlloc
		var d gpbft.PartialGMessage
		var derr error
		p := func() (p any) {
			defer func() { p = recover() }()
			derr = z.Decode(frame, &d)
			return nil
		}()
		runtime.ReadMemStats(&ms)
		chk.Add("evaluations", 1)
		rep := map[string]any{"kind": "zstd-bomb", "declared": size, "frame_len": len(frame)}
		switch {
		case p != nil:
			chk.Violation("zstd-decode-panics", fmt.Sprint(p), rep)
		case derr == nil:
			chk.Violation("zstd-overexpanding-frame-accepted", fmt.Sprintf("a %d-byte frame expanding to %d bytes decoded without error", len(frame), size), rep)
		case ms.TotalAlloc-before > 8<<20:
			chk.Violation("zstd-decode-allocates-beyond-limit", fmt.Sprintf("decoding a frame expanding to %d bytes allocated %d bytes", size, ms.TotalAlloc-before), rep)
		}
	}
	// zstd: truncations and byte flips of a valid frame
	{
		z, _ := encoding.NewZSTD[*chainexchange.Message]()
		cm := shapeByName("chainexchange.Message").(*chainexchange.Message)
		frame, _ := z.Encode(cm)
		buf := make([]byte, len(frame))
		var n int64
		for cut := 0; cut < len(frame); cut++ {
			var d chainexchange.Message
			if p := func() (p any) { defer func() { p = recover() }(); _ = z.Decode(frame[:cut], &d); return nil }(); p != nil {
				chk.Violation("zstd-decode-panics", fmt.Sprintf("truncated frame (%d bytes): %v", cut, p), nil)
				return
			}
			n++
		}
		for pos := 0; pos < len(frame); pos++ {
			for v := 0; v < 256; v++ {
				if byte(v) == frame[pos] {
					continue
				}
				copy(buf, frame)
				buf[pos] = byte(v)
				var d chainexchange.Message
				if p := func() (p any) { defer func() { p = recover() }(); _ = z.Decode(buf, &d); return nil }(); p != nil {
					chk.Violation("zstd-decode-panics", fmt.Sprintf("frame byte %d = %#x: %v", pos, v, p), nil)
					return
				}
				n++
			}
		}
		chk.Add("evaluations", n)
		chk.Set("zstd_frame_deviations", n)
	}
}

func main() {
	prop := flag.String("prop", "C14", "")
	replay := flag.String("replay", "", "")
	flag.Parse()
	_, _ = prop, replay
	chk = vcommon.NewCheck("C14", "exploration")
	thorough := vcommon.Thorough()
	signedBytes(thorough)
	if chk.Violations() == 0 {
		chainKeys()
	}
	if chk.Violations() == 0 {
		encs := roundTrips()
		if chk.Violations() == 0 {
			robustness(encs, thorough)
		}
	}
	chk.Set("exhaustive", chk.Violations() == 0)
	chk.Set("rule", "signed bytes: chains of every length 1..128 x every tipset x {epoch, key byte, key length, CID, commitments} + neighbour swaps + length +-1 + bottom + every payload field + network name, all pairwise distinct; VRF inputs likewise; chain keys: Key / KeysForPrefixes / AllPrefixes / Prefix(i).Key for every prefix of every length; forks grown (Append, Extend) on every prefix object of chains up to 12, however obtained, leave parent and sibling prefixes intact (content and cached key); codecs: 23 wire/storage shapes at boundary sizes (128 tipsets, 760-byte keys, 96-byte signatures, bottom, empty table, 40-entry delta) round-trip through CBOR (+ZSTD where used); robustness: every truncation, every position x every byte value (large encodings: dense in the first 512 / last 64 bytes, CBOR boundary values elsewhere), 2-byte boundary-value deviations for encodings < 200 bytes, inflated length headers at every position with a 16 MiB allocation cap, over-expanding and corrupted ZSTD frames")
	chk.Assume("coverage-guided mutation (fuzzing) is a different technique; it is replaced by the exhaustive small-deviation neighbourhood of valid encodings")
	chk.Finish()
}
