// certsenum — C04: certificate-chain validation against an independent reference predicate on honest
// chains and every single / double corruption of them; power-table deltas on a complete small universe.
package main

import (
	"bytes"
	"context"
	"flag"
	"fmt"
	"math/big"
	"runtime"
	"sort"
	"sync"
	"sync/atomic"

	"github.com/filecoin-project/go-f3/certs"
	"github.com/filecoin-project/go-f3/gpbft"
	"github.com/filecoin-project/go-f3/internal/verif/vcommon"
	"github.com/filecoin-project/go-f3/internal/verif/vfix"
	gbig "github.com/filecoin-project/go-state-types/big"
)

var (
	bg   = context.Background()
	keys = vfix.NewKeys(40)
	chk  *vcommon.Check
)

// =====================================================================================================
// Part (b): deltas over a complete small universe
// =====================================================================================================

var uniPowers = []string{"1", "2", "1180591620717411303424"} // 2^70
var uniKeys = []int{1, 2}                                      // key indices k, k'

// memberOptions: nil = absent.
type member struct {
	pow string
	key int
}

func memberOpts() []*member {
	out := []*member{nil}
	for _, p := range uniPowers {
		for _, k := range uniKeys {
			out = append(out, &member{p, k})
		}
	}
	return out
}

func allTables() []gpbft.PowerEntries {
	opts := memberOpts()
	var out []gpbft.PowerEntries
	for _, a := range opts {
		for _, b := range opts {
			for _, c := range opts {
				var es gpbft.PowerEntries
				for i, m := range []*member{a, b, c} {
					if m != nil {
						es = append(es, keys.Entry(uint64(i+1), vfix.BigPow(m.pow), m.key+10*i))
					}
				}
				out = append(out, vfix.Canon(es))
			}
		}
	}
	return out
}

func diffEqual(a, b certs.PowerTableDiff) bool {
	if len(a) != len(b) {
		return false
	}
	for i := range a {
		if a[i].ParticipantID != b[i].ParticipantID || !a[i].PowerDelta.Equals(b[i].PowerDelta) || !bytes.Equal(a[i].SigningKey, b[i].SigningKey) {
			return false
		}
	}
	return true
}

func isCanonical(t gpbft.PowerEntries) bool {
	return sort.IsSorted(t)
}

func deltaStr(d certs.PowerTableDiff) string {
	s := ""
	for _, x := range d {
		s += fmt.Sprintf("{%d %s %x}", x.ParticipantID, x.PowerDelta, x.SigningKey)
	}
	return s
}

func tableStr(t gpbft.PowerEntries) string {
	s := ""
	for _, x := range t {
		s += fmt.Sprintf("{%d %s %x}", x.ID, x.Power, x.PubKey[len(x.PubKey)-2:])
	}
	return s
}

func runDeltas(thorough bool) {
	tables := allTables()
	var evals atomic.Int64
	var stop atomic.Bool
	var wg sync.WaitGroup
	var next atomic.Int64
	var mu sync.Mutex
	fail := func(fp, what string, rep any) {
		mu.Lock()
		defer mu.Unlock()
		chk.Violation(fp, what, rep)
		stop.Store(true)
	}
	// near-valid deltas: per id in {1,2,3,4}: absent or (power delta, key) from small alphabets
	pds := []string{"-1180591620717411303424", "-2", "-1", "0", "1", "2", "1180591620717411303424"}
	kopts := []int{-1, 1, 2}
	type dent struct {
		pd  string
		key int
	}
	var dopts []*dent
	dopts = append(dopts, nil)
	for _, p := range pds {
		for _, k := range kopts {
			dopts = append(dopts, &dent{p, k})
		}
	}
	var deltas []certs.PowerTableDiff
	ids := []int{0, 1, 2}
	var rec func(i int, cur certs.PowerTableDiff)
	rec = func(i int, cur certs.PowerTableDiff) {
		if i == len(ids) {
			deltas = append(deltas, append(certs.PowerTableDiff{}, cur...))
			return
		}
		for _, o := range dopts {
			if o == nil {
				rec(i+1, cur)
				continue
			}
			var key gpbft.PubKey
			if o.key >= 0 {
				key = keys.Pub(o.key + 10*ids[i])
			}
			rec(i+1, append(cur, certs.PowerTableDelta{ParticipantID: gpbft.ActorID(ids[i] + 1), PowerDelta: vfix.BigPow(o.pd), SigningKey: key}))
		}
	}
	rec(0, nil)
	// unsorted / duplicate-id variants of the two- and three-entry deltas
	nd := len(deltas)
	for i := 0; i < nd; i++ {
		d := deltas[i]
		if len(d) >= 2 && i%7 == 0 {
			sw := append(certs.PowerTableDiff{}, d...)
			sw[0], sw[1] = sw[1], sw[0]
			deltas = append(deltas, sw)
			dup := append(certs.PowerTableDiff{}, d...)
			dup[1].ParticipantID = dup[0].ParticipantID
			deltas = append(deltas, dup)
		}
	}
	if false {
		// quick: every 3rd delta (all tables); thorough: all
		var sub []certs.PowerTableDiff
		for i, d := range deltas {
			if i%3 == 0 {
				sub = append(sub, d)
			}
		}
		deltas = sub
	}
	for w := 0; w < runtime.NumCPU(); w++ {
		wg.Add(1)
		go func() {
			defer wg.Done()
			var n int64
			defer func() { evals.Add(n) }()
			for !stop.Load() {
				ai := int(next.Add(1)) - 1
				if ai >= len(tables) {
					return
				}
				a := tables[ai]
				// all ordered pairs
				for bi, b := range tables {
					n++
					snapshot := vfix.CloneEntries(a)
					d := certs.MakePowerTableDiff(a, b)
					rep := map[string]any{"kind": "delta-pair", "a": tableStr(a), "b": tableStr(b)}
					for i := range d {
						if i > 0 && d[i].ParticipantID <= d[i-1].ParticipantID {
							fail("diff-not-sorted", fmt.Sprintf("MakePowerTableDiff(%s,%s) not sorted by participant: %s", tableStr(a), tableStr(b), deltaStr(d)), rep)
							return
						}
						if d[i].IsZero() {
							fail("diff-has-empty-entry", fmt.Sprintf("MakePowerTableDiff(%s,%s) contains an empty entry", tableStr(a), tableStr(b)), rep)
							return
						}
					}
					got, err := certs.ApplyPowerTableDiffs(a, d)
					if err != nil {
						fail("diff-roundtrip-error", fmt.Sprintf("Apply(Make(a,b),a) failed for a=%s b=%s: %v", tableStr(a), tableStr(b), err), rep)
						return
					}
					if !got.Equal(b) || !isCanonical(got) {
						fail("diff-roundtrip-mismatch", fmt.Sprintf("Apply(Make(a,b),a) = %s, want b = %s (a=%s, diff=%s)", tableStr(got), tableStr(b), tableStr(a), deltaStr(d)), rep)
						return
					}
					if !a.Equal(snapshot) {
						fail("apply-mutates-input", fmt.Sprintf("ApplyPowerTableDiffs modified the caller's table %s", tableStr(snapshot)), rep)
						return
					}
					_ = bi
				}
				// near-valid deltas
				for _, d := range deltas {
					n++
					snapshot := vfix.CloneEntries(a)
					got, err := certs.ApplyPowerTableDiffs(a, d)
					rep := map[string]any{"kind": "delta-apply", "a": tableStr(a), "delta": deltaStr(d)}
					if !a.Equal(snapshot) {
						fail("apply-mutates-input", fmt.Sprintf("ApplyPowerTableDiffs(%s, %s) modified the caller's table", tableStr(snapshot), deltaStr(d)), rep)
						return
					}
					refOut, refOK := refApply(a, d)
					if err != nil {
						if refOK {
							fail("valid-delta-rejected", fmt.Sprintf("Apply(%s, %s) failed (%v) although the delta is the canonical delta to %s", tableStr(a), deltaStr(d), err, tableStr(refOut)), rep)
							return
						}
						continue
					}
					if !isCanonical(got) {
						fail("apply-result-not-canonical", fmt.Sprintf("Apply(%s, %s) = %s is not in canonical order", tableStr(a), deltaStr(d), tableStr(got)), rep)
						return
					}
					for _, e := range got {
						if e.Power.Sign() <= 0 || len(e.PubKey) == 0 {
							fail("apply-result-malformed", fmt.Sprintf("Apply(%s, %s) = %s contains a malformed entry", tableStr(a), deltaStr(d), tableStr(got)), rep)
							return
						}
					}
					if canon := certs.MakePowerTableDiff(a, got); !diffEqual(canon, d) {
						fail("non-canonical-delta-accepted", fmt.Sprintf("Apply(%s, %s) succeeded with %s but the canonical delta between them is %s", tableStr(a), deltaStr(d), tableStr(got), deltaStr(canon)), rep)
						return
					}
					if !refOK || !got.Equal(refOut) {
						fail("apply-differs-from-reference", fmt.Sprintf("Apply(%s, %s) = %s; reference says ok=%v %s", tableStr(a), deltaStr(d), tableStr(got), refOK, tableStr(refOut)), rep)
						return
					}
				}
			}
		}()
	}
	wg.Wait()
	chk.Add("evaluations", evals.Load())
	chk.Set("delta_tables", len(tables))
	chk.Set("delta_pairs", len(tables)*len(tables))
	chk.Set("near_valid_deltas_per_table", len(deltas))
	chk.Sample(map[string]any{"kind": "delta-apply", "a": tableStr(tables[100]), "delta": deltaStr(deltas[len(deltas)/2])})
}

// refApply: the delta rules of the property statement, written independently (map semantics).
func refApply(a gpbft.PowerEntries, d certs.PowerTableDiff) (gpbft.PowerEntries, bool) {
	type ent struct {
		pow *big.Int
		key []byte
	}
	m := map[gpbft.ActorID]*ent{}
	for _, e := range a {
		m[e.ID] = &ent{new(big.Int).Set(e.Power.Int), e.PubKey}
	}
	for i, x := range d {
		if i > 0 && x.ParticipantID <= d[i-1].ParticipantID {
			return nil, false
		}
		if x.PowerDelta.Sign() == 0 && len(x.SigningKey) == 0 {
			return nil, false
		}
		cur, ok := m[x.ParticipantID]
		if ok {
			if bytes.Equal(x.SigningKey, cur.key) {
				return nil, false
			}
			np := new(big.Int).Add(cur.pow, x.PowerDelta.Int)
			switch np.Sign() {
			case -1:
				return nil, false
			case 0:
				if len(x.SigningKey) > 0 {
					return nil, false
				}
				delete(m, x.ParticipantID)
			default:
				cur.pow = np
				if len(x.SigningKey) > 0 {
					cur.key = x.SigningKey
				}
			}
		} else {
			if x.PowerDelta.Sign() <= 0 || len(x.SigningKey) == 0 {
				return nil, false
			}
			m[x.ParticipantID] = &ent{new(big.Int).Set(x.PowerDelta.Int), x.SigningKey}
		}
	}
	var out gpbft.PowerEntries
	for id, e := range m {
		out = append(out, gpbft.PowerEntry{ID: id, Power: gbig.NewFromGo(e.pow), PubKey: e.key})
	}
	return vfix.Canon(out), true
}

func main() {
	prop := flag.String("prop", "C04", "")
	replay := flag.String("replay", "", "")
	flag.Parse()
	_, _ = prop, replay
	chk = vcommon.NewCheck("C04", "exploration")
	thorough := vcommon.Thorough()
	runChains(thorough)
	if chk.Violations() == 0 {
		runDeltas(thorough)
	}
	chk.Set("exhaustive", chk.Violations() == 0)
	chk.Set("rule", "honest certificate chains (length<=4, evolving tables: re-weight/add/remove/re-key, dust and 2^70 powers, 3 histories) x every single and every pair of corruptions from a list of ~45 kinds at every position (raw and re-signed by a quorum), validated by certs.ValidateFinalityCertificates and by an independent reference predicate; all 343^2 ordered pairs of tables over ids{1,2,3} x power{absent,1,2,2^70} x key{k,k'} and all near-valid deltas over the same universe applied to every table")
	chk.Assume("fake signing backend; reference predicate and reference delta application written from the property statement")
	chk.Finish()
}
