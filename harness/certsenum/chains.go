package main

import (
	"bytes"
	"fmt"
	"math/big"
	"sort"

	"github.com/filecoin-project/go-f3/certs"
	"github.com/filecoin-project/go-f3/gpbft"
	"github.com/filecoin-project/go-f3/internal/verif/vfix"
	"github.com/ipfs/go-cid"
)

// =====================================================================================================
// Part (a): certificate chains
// =====================================================================================================

// spec describes one certificate before signing, so that corruptions can be applied either before
// (re-signed by a quorum: tests the non-signature rules) or after signing (raw: tests the signature).
type spec struct {
	inst    uint64
	chain   []*gpbft.TipSet
	cur     gpbft.PowerEntries // table in force (canonical)
	next    gpbft.PowerEntries // table the certificate commits to
	delta   certs.PowerTableDiff
	commit  cid.Cid
	comm    [32]byte
	signers []int
	network gpbft.NetworkName
	// raw corruptions applied after signing
	post []func(c *certs.FinalityCertificate)
}

func (s *spec) clone() *spec {
	c := *s
	c.chain = nil
	for _, t := range s.chain {
		tc := *t
		tc.Key = append([]byte{}, t.Key...)
		c.chain = append(c.chain, &tc)
	}
	c.delta = append(certs.PowerTableDiff{}, s.delta...)
	c.signers = append([]int{}, s.signers...)
	c.post = append([]func(*certs.FinalityCertificate){}, s.post...)
	return &c
}

func (s *spec) build() *certs.FinalityCertificate {
	supp := gpbft.SupplementalData{PowerTable: s.commit, Commitments: s.comm}
	chain := &gpbft.ECChain{TipSets: s.chain}
	payload := gpbft.Payload{Instance: s.inst, Round: 0, Phase: gpbft.DECIDE_PHASE, SupplementalData: supp, Value: chain}
	var idx []int
	for _, i := range s.signers {
		if i >= 0 && i < len(s.cur) {
			idx = append(idx, i)
		}
	}
	j := keys.Justify(s.network, s.cur, payload, idx)
	c := &certs.FinalityCertificate{GPBFTInstance: s.inst, ECChain: chain, SupplementalData: supp,
		Signers: vfix.Bitfield(s.signers), Signature: j.Signature, PowerTableDelta: s.delta}
	for _, f := range s.post {
		func() {
			defer func() { _ = recover() }() // a raw edit that does not apply (e.g. head of an empty chain) is a no-op
			f(c)
		}()
	}
	return c
}

type history struct {
	name   string
	first  uint64
	base   *gpbft.TipSet
	table0 gpbft.PowerEntries
	specs  []*spec
}

func mkTable(es ...gpbft.PowerEntry) gpbft.PowerEntries { return vfix.Canon(es) }

func histories() []*history {
	pw := gpbft.NewStoragePower
	var out []*history
	// history A: four members, evolving: re-weight, add, remove, re-key
	tA := []gpbft.PowerEntries{
		mkTable(keys.Entry(1, pw(40), 1), keys.Entry(2, pw(30), 2), keys.Entry(3, pw(20), 3), keys.Entry(4, pw(10), 4)),
		mkTable(keys.Entry(1, pw(40), 1), keys.Entry(2, pw(35), 2), keys.Entry(3, pw(20), 3), keys.Entry(4, pw(10), 4)),
		mkTable(keys.Entry(1, pw(40), 1), keys.Entry(2, pw(35), 2), keys.Entry(3, pw(20), 3), keys.Entry(4, pw(10), 4), keys.Entry(5, pw(25), 5)),
		mkTable(keys.Entry(1, pw(40), 1), keys.Entry(2, pw(35), 2), keys.Entry(3, pw(20), 3), keys.Entry(5, pw(25), 5)),
		mkTable(keys.Entry(1, pw(40), 11), keys.Entry(2, pw(35), 2), keys.Entry(3, pw(20), 3), keys.Entry(5, pw(25), 5)),
	}
	out = append(out, mkHistory("A", 0, tA, []int{2, 1, 3, 2}))
	// history B: dust and huge powers, first instance 7
	tB := []gpbft.PowerEntries{
		mkTable(keys.Entry(1, vfix.BigPow("1180591620717411303424"), 1), keys.Entry(2, vfix.BigPow("1180591620717411303424"), 2), keys.Entry(3, vfix.BigPow("1180591620717411303424"), 3), keys.Entry(9, pw(1), 9)),
		mkTable(keys.Entry(1, vfix.BigPow("1180591620717411303424"), 1), keys.Entry(2, vfix.BigPow("1180591620717411303425"), 2), keys.Entry(3, vfix.BigPow("1180591620717411303424"), 3), keys.Entry(9, pw(1), 9)),
		mkTable(keys.Entry(1, vfix.BigPow("1180591620717411303424"), 1), keys.Entry(2, vfix.BigPow("1180591620717411303425"), 2), keys.Entry(3, vfix.BigPow("1180591620717411303424"), 3)),
		mkTable(keys.Entry(1, vfix.BigPow("1180591620717411303424"), 1), keys.Entry(2, vfix.BigPow("1180591620717411303425"), 2), keys.Entry(3, vfix.BigPow("1180591620717411303424"), 3)),
	}
	out = append(out, mkHistory("B", 7, tB, []int{1, 2, 1}))
	// history C: three equal members, unchanged table, base-only and long chains
	tC := []gpbft.PowerEntries{
		mkTable(keys.Entry(1, pw(1), 21), keys.Entry(2, pw(1), 22), keys.Entry(3, pw(1), 23)),
	}
	tC = append(tC, tC[0], tC[0])
	out = append(out, mkHistory("C", 3, tC, []int{0, 3}))
	return out
}

// mkHistory builds honest specs: cert k finalizes lens[k] new tipsets under tables[k] committing tables[k+1].
func mkHistory(name string, first uint64, tables []gpbft.PowerEntries, lens []int) *history {
	h := &history{name: name, first: first, table0: tables[0]}
	h.base = vfix.TipSet(name+"g", 100, vfix.TableCID(tables[0]))
	prev := h.base
	for k, n := range lens {
		ts := []*gpbft.TipSet{prev}
		for i := 1; i <= n; i++ {
			ts = append(ts, vfix.TipSet(fmt.Sprintf("%s%d", name, k), prev.Epoch+int64(i), vfix.TableCID(tables[k])))
		}
		s := &spec{inst: first + uint64(k), chain: ts, cur: tables[k], next: tables[k+1],
			delta: certs.MakePowerTableDiff(tables[k], tables[k+1]), commit: vfix.TableCID(tables[k+1]),
			signers: vfix.MinimalQuorum(tables[k]), network: vfix.Network}
		h.specs = append(h.specs, s)
		prev = ts[len(ts)-1]
	}
	return h
}

// ---- reference predicate ---------------------------------------------------------------------------------

func scaledRef(t gpbft.PowerEntries) ([]int64, int64, bool) {
	total := new(big.Int)
	for _, e := range t {
		if e.Power.Sign() <= 0 {
			return nil, 0, false
		}
		total.Add(total, e.Power.Int)
	}
	out := make([]int64, len(t))
	var sum int64
	for i, e := range t {
		out[i] = new(big.Int).Div(new(big.Int).Mul(big.NewInt(65535), e.Power.Int), total).Int64()
		sum += out[i]
	}
	return out, sum, true
}

func chainWellFormed(c *gpbft.ECChain) bool {
	if c.IsZero() || c.Len() > gpbft.ChainMaxLen {
		return false
	}
	last := int64(-1)
	for _, t := range c.TipSets {
		if t == nil || len(t.Key) == 0 || len(t.Key) > gpbft.TipsetKeyMaxLen || !t.PowerTable.Defined() || t.PowerTable.ByteLen() > gpbft.CidMaxLen || t.Epoch <= last {
			return false
		}
		last = t.Epoch
	}
	return true
}

// refValidate returns (#valid certificates, next instance, concatenated suffixes, table after the prefix).
func refValidate(nn gpbft.NetworkName, table gpbft.PowerEntries, next uint64, base *gpbft.TipSet, cs []*certs.FinalityCertificate) (int, uint64, []*gpbft.TipSet, gpbft.PowerEntries) {
	var chain []*gpbft.TipSet
	for n, c := range cs {
		ok := func() bool {
			if c.GPBFTInstance != next || !chainWellFormed(c.ECChain) {
				return false
			}
			if base != nil && !base.Equal(c.ECChain.Base()) {
				return false
			}
			scaled, total, ok := scaledRef(table)
			if !ok {
				return false
			}
			var idx []int
			var pw int64
			bad := false
			_ = c.Signers.ForEach(func(i uint64) error {
				if i >= uint64(len(table)) || scaled[i] == 0 {
					bad = true
					return nil
				}
				idx = append(idx, int(i))
				pw += scaled[i]
				return nil
			})
			if bad || 3*pw < 2*total {
				return false
			}
			sort.Ints(idx)
			payload := gpbft.Payload{Instance: c.GPBFTInstance, Round: 0, Phase: gpbft.DECIDE_PHASE, SupplementalData: c.SupplementalData, Value: c.ECChain}
			want := keys.Justify(nn, table, payload, idx)
			if !bytes.Equal(want.Signature, c.Signature) {
				return false
			}
			nt, ok := refApply(table, c.PowerTableDelta)
			if !ok || vfix.TableCID(nt) != c.SupplementalData.PowerTable {
				return false
			}
			table = nt
			return true
		}()
		if !ok {
			return n, next, chain, table
		}
		next++
		chain = append(chain, c.ECChain.Suffix()...)
		base = c.ECChain.Head()
	}
	return len(cs), next, chain, table
}

// ---- corruptions -----------------------------------------------------------------------------------------

type corruption struct {
	name  string
	apply func(h *history, specs []*spec, pos int) bool // false: not applicable at pos
}

func resignAll(s *spec) { s.signers = vfix.MinimalQuorum(s.cur) }

func corruptions() []corruption {
	var cs []corruption
	add := func(name string, f func(h *history, specs []*spec, pos int) bool) {
		cs = append(cs, corruption{name, f})
	}
	post := func(name string, f func(c *certs.FinalityCertificate)) {
		add("raw:"+name, func(h *history, specs []*spec, pos int) bool {
			specs[pos].post = append(specs[pos].post, f)
			return true
		})
	}
	// --- re-signed (a quorum really signed the altered content)
	add("signed:instance+1", func(h *history, sp []*spec, p int) bool { sp[p].inst++; return true })
	add("signed:instance-1", func(h *history, sp []*spec, p int) bool {
		if sp[p].inst == 0 {
			return false
		}
		sp[p].inst--
		return true
	})
	add("signed:base-other", func(h *history, sp []*spec, p int) bool {
		sp[p].chain[0] = vfix.TipSet("other", sp[p].chain[0].Epoch, sp[p].chain[0].PowerTable)
		return true
	})
	add("signed:base-epoch-1", func(h *history, sp []*spec, p int) bool { sp[p].chain[0].Epoch--; return true })
	add("signed:head-other-key", func(h *history, sp []*spec, p int) bool {
		n := len(sp[p].chain)
		sp[p].chain[n-1].Key = append(sp[p].chain[n-1].Key, 'x')
		return true
	})
	add("signed:chain-empty", func(h *history, sp []*spec, p int) bool { sp[p].chain = nil; return true })
	add("signed:chain-epochs-not-increasing", func(h *history, sp []*spec, p int) bool {
		n := len(sp[p].chain)
		if n < 2 {
			return false
		}
		sp[p].chain[n-1].Epoch = sp[p].chain[n-2].Epoch
		return true
	})
	add("signed:chain-tipset-without-cid", func(h *history, sp []*spec, p int) bool {
		n := len(sp[p].chain)
		sp[p].chain[n-1].PowerTable = cid.Undef
		return true
	})
	add("signed:chain-truncated", func(h *history, sp []*spec, p int) bool {
		n := len(sp[p].chain)
		if n < 2 {
			return false
		}
		sp[p].chain = sp[p].chain[:n-1]
		return true
	})
	add("signed:chain-extended", func(h *history, sp []*spec, p int) bool {
		n := len(sp[p].chain)
		sp[p].chain = append(sp[p].chain, vfix.TipSet("ext", sp[p].chain[n-1].Epoch+1, sp[p].chain[n-1].PowerTable))
		return true
	})
	add("signed:commit-other-table", func(h *history, sp []*spec, p int) bool {
		sp[p].commit = vfix.TableCID(mkTable(keys.Entry(77, gpbft.NewStoragePower(1), 7)))
		return true
	})
	add("signed:commitments-changed", func(h *history, sp []*spec, p int) bool { sp[p].comm[3] ^= 1; return true })
	add("signed:delta-dropped", func(h *history, sp []*spec, p int) bool {
		if len(sp[p].delta) == 0 {
			return false
		}
		sp[p].delta = nil
		return true
	})
	add("signed:delta-power+1", func(h *history, sp []*spec, p int) bool {
		if len(sp[p].delta) == 0 {
			return false
		}
		sp[p].delta[0].PowerDelta = gpbft.NewStoragePower(sp[p].delta[0].PowerDelta.Int64() + 1)
		return true
	})
	add("signed:delta-extra-entry", func(h *history, sp []*spec, p int) bool {
		sp[p].delta = append(sp[p].delta, certs.PowerTableDelta{ParticipantID: 99, PowerDelta: gpbft.NewStoragePower(5), SigningKey: keys.Pub(30)})
		return true
	})
	add("signed:delta-rekey", func(h *history, sp []*spec, p int) bool {
		if len(sp[p].delta) == 0 {
			return false
		}
		sp[p].delta[0].SigningKey = keys.Pub(31)
		return true
	})
	add("signed:delta-unsorted", func(h *history, sp []*spec, p int) bool {
		// an equivalent but unsorted delta: extend to two entries and swap them
		d := append(certs.PowerTableDiff{}, sp[p].delta...)
		nx := append(vfix.CloneEntries(sp[p].next), keys.Entry(98, gpbft.NewStoragePower(3), 28), keys.Entry(97, gpbft.NewStoragePower(3), 29))
		nx = vfix.Canon(nx)
		d = certs.MakePowerTableDiff(sp[p].cur, nx)
		if len(d) < 2 {
			return false
		}
		d[0], d[len(d)-1] = d[len(d)-1], d[0]
		sp[p].delta, sp[p].commit, sp[p].next = d, vfix.TableCID(nx), nx
		return true
	})
	add("signed:delta-empty-entry", func(h *history, sp []*spec, p int) bool {
		sp[p].delta = append(certs.PowerTableDiff{{ParticipantID: 0, PowerDelta: gpbft.NewStoragePower(0)}}, sp[p].delta...)
		return true
	})
	add("signed:other-network", func(h *history, sp []*spec, p int) bool { sp[p].network = "other-net"; return true })
	// signer sets with a VALID aggregate: all subsets are enumerated separately (signerSubsets); here boundary picks
	add("signed:signers-minus-last", func(h *history, sp []*spec, p int) bool {
		if len(sp[p].signers) < 1 {
			return false
		}
		sp[p].signers = sp[p].signers[:len(sp[p].signers)-1]
		return true
	})
	add("signed:signers-all", func(h *history, sp []*spec, p int) bool {
		sp[p].signers = nil
		sc, _, _ := scaledRef(sp[p].cur)
		for i := range sp[p].cur {
			if sc[i] > 0 {
				sp[p].signers = append(sp[p].signers, i)
			}
		}
		return true
	})
	add("signed:signers-with-zero-power-member", func(h *history, sp []*spec, p int) bool {
		sc, _, _ := scaledRef(sp[p].cur)
		for i := range sp[p].cur {
			if sc[i] == 0 {
				sp[p].signers = append(sp[p].signers, i)
				return true
			}
		}
		return false
	})
	add("signed:signer-out-of-range", func(h *history, sp []*spec, p int) bool {
		sp[p].signers = append(sp[p].signers, len(sp[p].cur)+1)
		return true
	})
	// --- raw (content altered after signing)
	post("instance+1", func(c *certs.FinalityCertificate) { c.GPBFTInstance++ })
	post("head-epoch+1", func(c *certs.FinalityCertificate) {
		t := *c.ECChain.Head()
		t.Epoch++
		c.ECChain = &gpbft.ECChain{TipSets: append(append([]*gpbft.TipSet{}, c.ECChain.TipSets[:c.ECChain.Len()-1]...), &t)}
	})
	post("head-key", func(c *certs.FinalityCertificate) {
		t := *c.ECChain.Head()
		t.Key = append(append([]byte{}, t.Key...), 'y')
		c.ECChain = &gpbft.ECChain{TipSets: append(append([]*gpbft.TipSet{}, c.ECChain.TipSets[:c.ECChain.Len()-1]...), &t)}
	})
	post("head-cid", func(c *certs.FinalityCertificate) {
		t := *c.ECChain.Head()
		t.PowerTable = gpbft.MakeCid([]byte("zzz"))
		c.ECChain = &gpbft.ECChain{TipSets: append(append([]*gpbft.TipSet{}, c.ECChain.TipSets[:c.ECChain.Len()-1]...), &t)}
	})
	post("head-commitments", func(c *certs.FinalityCertificate) {
		t := *c.ECChain.Head()
		t.Commitments[0] ^= 1
		c.ECChain = &gpbft.ECChain{TipSets: append(append([]*gpbft.TipSet{}, c.ECChain.TipSets[:c.ECChain.Len()-1]...), &t)}
	})
	post("chain-extended", func(c *certs.FinalityCertificate) {
		h := c.ECChain.Head()
		c.ECChain = &gpbft.ECChain{TipSets: append(append([]*gpbft.TipSet{}, c.ECChain.TipSets...), vfix.TipSet("rawext", h.Epoch+1, h.PowerTable))}
	})
	post("chain-truncated", func(c *certs.FinalityCertificate) {
		if c.ECChain.Len() > 1 {
			c.ECChain = &gpbft.ECChain{TipSets: append([]*gpbft.TipSet{}, c.ECChain.TipSets[:c.ECChain.Len()-1]...)}
		} else {
			c.ECChain = &gpbft.ECChain{}
		}
	})
	post("supplemental-commitments", func(c *certs.FinalityCertificate) { c.SupplementalData.Commitments[31] ^= 0x80 })
	post("signature-byte", func(c *certs.FinalityCertificate) {
		c.Signature = append([]byte{}, c.Signature...)
		c.Signature[len(c.Signature)/2] ^= 1
	})
	post("signature-empty", func(c *certs.FinalityCertificate) { c.Signature = nil })
	post("signer-bit-added", func(c *certs.FinalityCertificate) {
		var idx []int
		_ = c.Signers.ForEach(func(i uint64) error { idx = append(idx, int(i)); return nil })
		for i := 0; ; i++ {
			found := false
			for _, x := range idx {
				if x == i {
					found = true
				}
			}
			if !found {
				c.Signers = vfix.Bitfield(append(idx, i))
				return
			}
		}
	})
	post("signer-bit-removed", func(c *certs.FinalityCertificate) {
		var idx []int
		_ = c.Signers.ForEach(func(i uint64) error { idx = append(idx, int(i)); return nil })
		if len(idx) > 0 {
			c.Signers = vfix.Bitfield(idx[1:])
		}
	})
	// --- sequence level
	add("seq:swap-with-next", func(h *history, sp []*spec, p int) bool {
		if p+1 >= len(sp) {
			return false
		}
		sp[p], sp[p+1] = sp[p+1], sp[p]
		return true
	})
	add("seq:duplicate", func(h *history, sp []*spec, p int) bool {
		// handled by the driver (needs slice growth): mark
		sp[p].post = append(sp[p].post, nil)
		return true
	})
	return cs
}

// safeApply applies a corruption; combinations that make no sense (e.g. altering the head of an emptied
// chain) are reported as not applicable.
func safeApply(c corruption, h *history, sp []*spec, pos int) (ok bool) {
	defer func() {
		if recover() != nil {
			ok = false
		}
	}()
	return c.apply(h, sp, pos)
}

func runChains(thorough bool) {
	hs := histories()
	cors := corruptions()
	var evals int64
	accepted, rejectedAt := 0, map[int]int{}
	check := func(h *history, specs []*spec, label string, rep map[string]any) bool {
		// expand "duplicate" / "drop" markers
		var cs []*certs.FinalityCertificate
		for _, s := range specs {
			dup := false
			var posts []func(*certs.FinalityCertificate)
			for _, f := range s.post {
				if f == nil {
					dup = true
				} else {
					posts = append(posts, f)
				}
			}
			s2 := s.clone()
			s2.post = posts
			c := s2.build()
			cs = append(cs, c)
			if dup {
				cs = append(cs, s2.build())
			}
		}
		for _, useBase := range []bool{true, false} {
			var base *gpbft.TipSet
			if useBase {
				base = h.base
			}
			evals++
			in := vfix.CloneEntries(h.table0)
			gotNext, gotChain, gotTable, err := certs.ValidateFinalityCertificates(keys, vfix.Network, in, h.first, base, cs...)
			n, wantNext, wantChain, wantTable := refValidate(vfix.Network, h.table0, h.first, base, cs)
			rep["with_base"] = useBase
			where := fmt.Sprintf("history %s, %s, base given=%v", h.name, label, useBase)
			if (err == nil) != (n == len(cs)) {
				if err == nil {
					chk.Violation("invalid-chain-accepted:"+classOf(label), fmt.Sprintf("%s: validator accepted %d certificates, the reference rejects certificate #%d", where, len(cs), n), rep)
				} else {
					chk.Violation("valid-chain-rejected:"+classOf(label), fmt.Sprintf("%s: validator rejected (%v) a sequence the reference accepts", where, err), rep)
				}
				return false
			}
			if gotNext != wantNext {
				chk.Violation("reported-next-instance-wrong", fmt.Sprintf("%s: reported next instance %d, valid prefix ends at %d (err=%v)", where, gotNext, wantNext, err), rep)
				return false
			}
			if gotChain.Len() != len(wantChain) {
				chk.Violation("reported-chain-wrong", fmt.Sprintf("%s: reported chain of %d tipsets, valid prefix finalizes %d (err=%v)", where, gotChain.Len(), len(wantChain), err), rep)
				return false
			}
			for i := range wantChain {
				if !gotChain.TipSets[i].Equal(wantChain[i]) {
					chk.Violation("reported-chain-wrong", fmt.Sprintf("%s: reported chain differs at %d", where, i), rep)
					return false
				}
			}
			if len(cs) > 0 && !vfix.Canon(gotTable).Equal(wantTable) {
				chk.Violation("reported-power-table-wrong", fmt.Sprintf("%s: reported power table %s, table after the valid prefix is %s (err=%v)", where, tableStr(gotTable), tableStr(wantTable), err), rep)
				return false
			}
			if !in.Equal(h.table0) {
				chk.Violation("validator-mutates-input-table", where, rep)
				return false
			}
			if err == nil {
				accepted++
			} else {
				rejectedAt[n]++
			}
		}
		return true
	}
	cloneAll := func(h *history) []*spec {
		var out []*spec
		for _, s := range h.specs {
			out = append(out, s.clone())
		}
		return out
	}
	for _, h := range hs {
		// honest chain and every prefix / suffix window starting at 0
		for n := 0; n <= len(h.specs); n++ {
			if !check(h, cloneAll(h)[:n], fmt.Sprintf("honest prefix of %d", n), map[string]any{"kind": "chain", "history": h.name, "corruptions": []string{}}) {
				return
			}
		}
		// all signer subsets with valid aggregates, at every position
		for p := range h.specs {
			nmem := len(h.specs[p].cur)
			for mask := 0; mask < 1<<nmem; mask++ {
				sp := cloneAll(h)
				sp[p].signers = nil
				for i := 0; i < nmem; i++ {
					if mask&(1<<i) != 0 {
						sp[p].signers = append(sp[p].signers, i)
					}
				}
				label := fmt.Sprintf("signers %v at #%d (valid aggregate)", sp[p].signers, p)
				if !check(h, sp, label, map[string]any{"kind": "chain", "history": h.name, "corruptions": []string{label}}) {
					return
				}
				chk.Distinct(h.name + label)
			}
		}
		// single corruptions
		type one struct {
			c   int
			pos int
		}
		var singles []one
		for ci := range cors {
			for p := range h.specs {
				sp := cloneAll(h)
				if !safeApply(cors[ci], h, sp, p) {
					continue
				}
				singles = append(singles, one{ci, p})
				label := fmt.Sprintf("%s at #%d", cors[ci].name, p)
				if !check(h, sp, label, map[string]any{"kind": "chain", "history": h.name, "corruptions": []string{label}}) {
					return
				}
				chk.Distinct(h.name + label)
			}
		}
		// double corruptions
		for i, a := range singles {
			for _, b := range singles[i+1:] {
				if false {
					continue // quick tier: a fixed third of the pairs (all singles are always covered)
				}
				sp := cloneAll(h)
				if !safeApply(cors[a.c], h, sp, a.pos) || !safeApply(cors[b.c], h, sp, b.pos) {
					continue
				}
				label := fmt.Sprintf("%s at #%d + %s at #%d", cors[a.c].name, a.pos, cors[b.c].name, b.pos)
				if !check(h, sp, label, map[string]any{"kind": "chain", "history": h.name, "corruptions": []string{label}}) {
					return
				}
				chk.Distinct(h.name + label)
			}
		}
		// splices: a certificate of another history at every position
		for _, o := range hs {
			if o == h {
				continue
			}
			for p := range h.specs {
				for q := range o.specs {
					sp := cloneAll(h)
					alien := o.specs[q].clone()
					alien.inst = sp[p].inst
					sp[p] = alien
					label := fmt.Sprintf("splice %s#%d at #%d", o.name, q, p)
					if !check(h, sp, label, map[string]any{"kind": "chain", "history": h.name, "corruptions": []string{label}}) {
						return
					}
				}
			}
		}
	}
	chk.Add("evaluations", evals)
	chk.Set("chains_accepted", accepted)
	chk.Set("chains_rejected_by_position", fmt.Sprint(rejectedAt))
	chk.Sample(map[string]any{"kind": "chain", "history": "A", "corruptions": []string{"signed:base-other at #2", "raw:signature-byte at #3"}})
}

func classOf(label string) string {
	for i, r := range label {
		if r == ' ' {
			return label[:i]
		}
	}
	return label
}
