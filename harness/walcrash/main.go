// walcrash — C11: every operation sequence on the real write-ahead log up to a depth, compared with a
// reference list of acknowledged entries after every step; for the final append of every history every
// torn-write image (byte offsets) is recovered, read, continued and reopened.
package main

import (
	"flag"
	"fmt"
	"io"
	"os"
	"path/filepath"
	"runtime"
	"sort"
	"strings"
	"sync"
	"sync/atomic"
	"time"

	"github.com/filecoin-project/go-f3/internal/verif/vcommon"
	"github.com/filecoin-project/go-f3/internal/writeaheadlog"
	cbg "github.com/whyrusleeping/cbor-gen"
)

// ent is the harness entry type: unique id, epoch, padding.
type ent struct {
	ID    uint64
	Epoch uint64
	Pad   []byte
	Fail  bool // not serialised: encoding fails after the first fields were emitted
}

func (e *ent) WALEpoch() uint64 { return e.Epoch }

func (e *ent) MarshalCBOR(w io.Writer) error {
	cw := cbg.NewCborWriter(w)
	if err := cw.WriteMajorTypeHeader(cbg.MajArray, 3); err != nil {
		return err
	}
	if err := cw.WriteMajorTypeHeader(cbg.MajUnsignedInt, e.ID); err != nil {
		return err
	}
	if e.Fail {
		return fmt.Errorf("entry cannot be encoded (field too long)")
	}
	if err := cw.WriteMajorTypeHeader(cbg.MajUnsignedInt, e.Epoch); err != nil {
		return err
	}
	if err := cw.WriteMajorTypeHeader(cbg.MajByteString, uint64(len(e.Pad))); err != nil {
		return err
	}
	_, err := cw.Write(e.Pad)
	return err
}

func (e *ent) UnmarshalCBOR(r io.Reader) error {
	cr := cbg.NewCborReader(r)
	maj, n, err := cr.ReadHeader()
	if err != nil {
		return err
	}
	if maj != cbg.MajArray || n != 3 {
		return fmt.Errorf("bad entry header")
	}
	if maj, e.ID, err = cr.ReadHeader(); err != nil || maj != cbg.MajUnsignedInt {
		return fmt.Errorf("bad id: %v", err)
	}
	if maj, e.Epoch, err = cr.ReadHeader(); err != nil || maj != cbg.MajUnsignedInt {
		return fmt.Errorf("bad epoch: %v", err)
	}
	maj, n, err = cr.ReadHeader()
	if err != nil || maj != cbg.MajByteString || n > 4<<20 {
		return fmt.Errorf("bad pad: %v", err)
	}
	e.Pad = make([]byte, n)
	if _, err := io.ReadFull(cr, e.Pad); err != nil {
		if err == io.EOF {
			err = io.ErrUnexpectedEOF
		}
		return err
	}
	return nil
}

type WAL = writeaheadlog.WriteAheadLog[ent, *ent]

const bigPad = 600 << 10

// ---- reference model ------------------------------------------------------------------------------------------

type refFile struct {
	name    string
	entries []ent // acknowledged, in append order (Pad dropped)
	size    int64
	closed  bool
}

type ref struct {
	files  []*refFile // existing files
	active *refFile
	nextID uint64
}

type sys struct {
	dir  string
	wal  *WAL
	ref  *ref
	fail string
	fp   string
}

func (s *sys) bad(fp, f string, a ...any) {
	if s.fail == "" {
		s.fp, s.fail = fp, fmt.Sprintf(f, a...)
	}
}

func listDir(dir string) []string {
	des, _ := os.ReadDir(dir)
	var out []string
	for _, d := range des {
		out = append(out, d.Name())
	}
	sort.Strings(out)
	return out
}

func newSys(dir string) *sys {
	_ = os.RemoveAll(dir)
	s := &sys{dir: dir, ref: &ref{nextID: 1}}
	w, err := writeaheadlog.Open[ent, *ent](dir)
	if err != nil {
		s.bad("open-failed", "Open: %v", err)
	}
	s.wal = w
	return s
}

func (s *sys) syncNames() {
	// map a newly created file in the directory to the reference's active file
	names := listDir(s.dir)
	known := map[string]bool{}
	for _, f := range s.ref.files {
		known[f.name] = true
	}
	for _, n := range names {
		if !known[n] && s.ref.active != nil && s.ref.active.name == "" {
			s.ref.active.name = n
			known[n] = true
		}
	}
}

func (s *sys) apply(op string) {
	r := s.ref
	switch {
	case op == "aF":
		// an append whose entry fails to encode part-way: it is not acknowledged and must leave no trace that
		// affects later entries
		e := ent{ID: 1 << 40, Epoch: 2, Fail: true}
		if r.active != nil && r.active.size > 1<<20 {
			r.active.closed = true
			r.active = nil
		}
		if r.active == nil {
			r.active = &refFile{}
			r.files = append(r.files, r.active)
		}
		if err := s.wal.Append(e); err == nil {
			s.bad("failed-append-acknowledged", "Append of an entry that cannot be encoded returned nil")
			return
		}
		s.syncNames()
		if r.active.name == "" {
			// no file was created for the failed append
			r.files = r.files[:len(r.files)-1]
			r.active = nil
		}
	case strings.HasPrefix(op, "aS"), strings.HasPrefix(op, "aB"):
		var epoch uint64
		fmt.Sscanf(op[2:], "%d", &epoch)
		e := ent{ID: r.nextID, Epoch: epoch, Pad: []byte{byte(r.nextID)}}
		if op[1] == 'B' {
			e.Pad = make([]byte, bigPad)
			for i := range e.Pad {
				e.Pad[i] = byte(i*7 + int(r.nextID))
			}
		}
		r.nextID++
		// reference: rotation rule
		if r.active != nil && r.active.size > 1<<20 {
			r.active.closed = true
			r.active = nil
		}
		if r.active == nil {
			r.active = &refFile{}
			r.files = append(r.files, r.active)
		}
		if err := s.wal.Append(e); err != nil {
			s.bad("append-failed", "Append: %v", err)
			return
		}
		s.syncNames()
		var sz sizeCounter
		_ = e.MarshalCBOR(&sz)
		r.active.size += int64(sz)
		r.active.entries = append(r.active.entries, ent{ID: e.ID, Epoch: e.Epoch})
	case op == "rot", op == "close":
		var err error
		if op == "rot" {
			err = s.wal.Rotate()
		} else {
			err = s.wal.Close()
		}
		if err != nil {
			s.bad("close-failed", "%s: %v", op, err)
		}
		if r.active != nil {
			r.active.closed = true
			r.active = nil
		}
	case strings.HasPrefix(op, "purge"):
		var keep uint64
		fmt.Sscanf(op[5:], "%d", &keep)
		if err := s.wal.Purge(keep); err != nil {
			s.bad("purge-failed", "Purge: %v", err)
		}
		var kept []*refFile
		names := map[string]bool{}
		for _, n := range listDir(s.dir) {
			names[n] = true
		}
		for _, f := range r.files {
			allBelow := true
			for _, e := range f.entries {
				if e.Epoch >= keep {
					allBelow = false
				}
			}
			switch {
			case f.closed && allBelow:
				if names[f.name] {
					s.bad("purge-incomplete", "Purge(%d) left closed log file %s whose entries %v are all below the epoch", keep, f.name, ids(f.entries))
				}
			default:
				if !names[f.name] {
					s.bad("purge-removed-live-file", "Purge(%d) removed log file %s (closed=%v) holding entries %v", keep, f.name, f.closed, ids(f.entries))
				}
				kept = append(kept, f)
			}
		}
		r.files = kept
	case op == "reopen":
		if err := s.wal.Close(); err != nil {
			s.bad("close-failed", "Close: %v", err)
		}
		s.reopen()
	}
	s.checkAll("after " + op)
}

func (s *sys) reopen() {
	r := s.ref
	if r.active != nil {
		r.active.closed = true
		r.active = nil
	}
	w, err := writeaheadlog.Open[ent, *ent](s.dir)
	if err != nil {
		s.bad("open-failed", "Open: %v", err)
		return
	}
	s.wal = w
}

type sizeCounter int64

func (c *sizeCounter) Write(p []byte) (int, error) { *c += sizeCounter(len(p)); return len(p), nil }

func ids(es []ent) []uint64 {
	var out []uint64
	for _, e := range es {
		out = append(out, e.ID)
	}
	return out
}

// checkAll compares All() with the reference: exactly the acknowledged, unpurged entries; per-file order.
func (s *sys) checkAll(when string) {
	if s.fail != "" {
		return
	}
	got, err := s.wal.All()
	if err != nil {
		s.bad("all-failed", "%s: All: %v", when, err)
		return
	}
	want := map[uint64]ent{}
	fileOf := map[uint64]int{}
	for fi, f := range s.ref.files {
		for _, e := range f.entries {
			want[e.ID] = e
			fileOf[e.ID] = fi
		}
	}
	seen := map[uint64]bool{}
	lastPos := map[int]int{}
	for _, g := range got {
		w, ok := want[g.ID]
		if !ok {
			s.bad("read-returns-unappended-entry", "%s: All() returned entry id=%d epoch=%d that is not an acknowledged, unpurged entry", when, g.ID, g.Epoch)
			return
		}
		if seen[g.ID] {
			s.bad("read-returns-duplicate", "%s: All() returned entry %d twice", when, g.ID)
			return
		}
		seen[g.ID] = true
		if g.Epoch != w.Epoch {
			s.bad("read-returns-corrupted-entry", "%s: entry %d epoch %d, appended with %d", when, g.ID, g.Epoch, w.Epoch)
			return
		}
		wantLen := 1
		if len(g.Pad) > 1 {
			wantLen = bigPad
		}
		if len(g.Pad) != wantLen || g.Pad[0] != byte(g.ID) && wantLen == 1 {
			s.bad("read-returns-corrupted-entry", "%s: entry %d payload damaged", when, g.ID)
			return
		}
		// per-file append order
		fi := fileOf[g.ID]
		pos := 0
		for i, e := range s.ref.files[fi].entries {
			if e.ID == g.ID {
				pos = i + 1
			}
		}
		if pos <= lastPos[fi] {
			s.bad("read-out-of-order-within-file", "%s: entries of one log file returned out of append order (entry %d)", when, g.ID)
			return
		}
		lastPos[fi] = pos
	}
	for id := range want {
		if !seen[id] {
			s.bad("acknowledged-entry-lost", "%s: acknowledged entry %d (epoch %d) is missing from All(); returned ids %v", when, id, want[id].Epoch, ids(got))
			return
		}
	}
}

// ---- torn images ------------------------------------------------------------------------------------------------

// tornCheck: the history's final operation was an acknowledged append of `size` bytes into file `name`.
// For each cut the directory is cloned with that file truncated to (before+cut) bytes, recovered, read,
// continued with one more append, and reopened again.
func tornCheck(s *sys, scratch string, hist []string, cuts []int64, before int64, name string, lastID uint64, stats *counters) (string, string) {
	for _, cut := range cuts {
		stats.crashImages.Add(1)
		img := filepath.Join(scratch, fmt.Sprintf("img-%d", cut))
		_ = os.RemoveAll(img)
		if err := os.MkdirAll(img, 0o777); err != nil {
			panic(err)
		}
		for _, n := range listDir(s.dir) {
			src, dst := filepath.Join(s.dir, n), filepath.Join(img, n)
			if n != name {
				if err := os.Link(src, dst); err != nil {
					panic(err)
				}
				continue
			}
			data, err := os.ReadFile(src)
			if err != nil {
				panic(err)
			}
			if err := os.WriteFile(dst, data[:before+cut], 0o666); err != nil {
				panic(err)
			}
		}
		// reference after the crash: everything acknowledged before the final append
		rs := &sys{dir: img, ref: cloneRef(s.ref)}
		for _, f := range rs.ref.files {
			f.closed = true
			var keep []ent
			for _, e := range f.entries {
				if e.ID != lastID {
					keep = append(keep, e)
				}
			}
			f.entries = keep
		}
		rs.ref.active = nil
		rs.reopen()
		where := fmt.Sprintf("history %v, final append torn after %d of its bytes", hist, cut)
		rs.checkAll(where + ", after recovery")
		if rs.fail == "" {
			rs.apply("aS3")
			rs.apply("reopen")
			rs.apply("aS1")
			rs.apply("purge2")
			rs.apply("reopen")
		}
		_ = rs.wal.Close()
		_ = os.RemoveAll(img)
		if rs.fail != "" {
			return rs.fp, where + ": " + rs.fail
		}
	}
	return "", ""
}

func cloneRef(r *ref) *ref {
	c := &ref{nextID: r.nextID}
	for _, f := range r.files {
		nf := &refFile{name: f.name, entries: append([]ent{}, f.entries...), size: f.size, closed: f.closed}
		c.files = append(c.files, nf)
		if f == r.active {
			c.active = nf
		}
	}
	return c
}

type counters struct {
	histories   atomic.Int64
	ops         atomic.Int64
	crashImages atomic.Int64
}

var alphabet = []string{"aS0", "aS1", "aS2", "aS3", "aB2", "aF", "rot", "close", "purge2", "purge3", "reopen"}

func main() {
	prop := flag.String("prop", "C11", "")
	replay := flag.String("replay", "", "")
	flag.Parse()
	_, _ = prop, replay
	chk := vcommon.NewCheck("C11", "fault_enumeration")
	depth := 4
	if vcommon.Thorough() {
		depth = 5
	}
	root := vcommon.ShmDir("wal")
	if _, err := os.Stat("/dev/shm"); err != nil {
		root = filepath.Join(vcommon.Dir(), ".work", fmt.Sprintf("wal-%d", os.Getpid()))
	}
	defer os.RemoveAll(root)
	if !vcommon.Thorough() {
		alphabet = []string{"aS0", "aS1", "aS2", "aB2", "aF", "rot", "close", "purge2", "purge3", "reopen"}
	}
	// enumerate all sequences up to depth
	var hists [][]string
	var rec func(cur []string)
	rec = func(cur []string) {
		if len(cur) > 0 {
			hists = append(hists, append([]string{}, cur...))
		}
		if len(cur) == depth {
			return
		}
		for _, op := range alphabet {
			rec(append(cur, op))
		}
	}
	rec(nil)
	// shortest first (a time budget, if hit, cuts the deepest level), after a few long histories that really
	// rotate (3 big appends exceed 1 MiB)
	sort.SliceStable(hists, func(a, b int) bool { return len(hists[a]) < len(hists[b]) })
	hists = append([][]string{
		{"aB2", "aB2", "aS1", "aB2", "aS3", "purge3", "aS1"},
		{"aS1", "aB2", "aB2", "aB2", "aB2", "reopen", "purge3", "aS2"},
		{"aB2", "aB2", "aB2", "aS1", "rot", "purge2", "reopen", "aS3"},
	}, hists...)
	budget := 12 * time.Minute
	if vcommon.Thorough() {
		budget = 40 * time.Minute
	}
	dl := vcommon.NewDeadline(budget)
	var timedOut atomic.Bool
	var st counters
	var next atomic.Int64
	var stop atomic.Bool
	var mu sync.Mutex
	var wg sync.WaitGroup
	for w := 0; w < runtime.NumCPU(); w++ {
		wg.Add(1)
		go func(w int) {
			defer wg.Done()
			dir := filepath.Join(root, fmt.Sprintf("w%d", w), "wal")
			scratch := filepath.Join(root, fmt.Sprintf("w%d", w), "img")
			for !stop.Load() {
				i := int(next.Add(1)) - 1
				if i >= len(hists) {
					return
				}
				if dl.Expired() {
					timedOut.Store(true)
					return
				}
				h := hists[i]
				s := newSys(dir)
				var before int64
				var lastName string
				for k, op := range h {
					if k == len(h)-1 && op[0] == 'a' && op != "aF" && s.ref.active != nil && !(s.ref.active.size > 1<<20) {
						before, lastName = s.ref.active.size, s.ref.active.name
					}
					s.apply(op)
					st.ops.Add(1)
					if s.fail != "" {
						break
					}
				}
				st.histories.Add(1)
				fp, what := s.fp, s.fail
				if what != "" {
					what = fmt.Sprintf("history %v: %s", h, what)
				}
				last := h[len(h)-1]
				if what == "" && last[0] == 'a' && last != "aF" {
					// torn images of the final append
					af := s.ref.active
					if lastName == "" {
						before, lastName = 0, af.name
					}
					size := af.size - before
					var cuts []int64
					if size <= 4096 {
						for c := int64(0); c < size; c++ {
							cuts = append(cuts, c)
						}
					} else {
						dense, stride := int64(32), size/8
						if vcommon.Thorough() {
							dense, stride = 1024, 40009
						}
						for c := int64(0); c < dense; c++ {
							cuts = append(cuts, c)
						}
						for c := dense; c < size-dense; c += stride {
							cuts = append(cuts, c)
						}
						for c := size - dense; c < size; c++ {
							cuts = append(cuts, c)
						}
					}
					lastID := af.entries[len(af.entries)-1].ID
					fp, what = tornCheck(s, scratch, h, cuts, before, lastName, lastID, &st)
				}
				_ = s.wal.Close()
				if what != "" {
					mu.Lock()
					chk.Violation(fp, what, map[string]any{"history": h})
					mu.Unlock()
					stop.Store(true)
				}
				if i%997 == 0 {
					chk.Sample(strings.Join(h, " "))
				}
				chk.Distinct(strings.Join(h, " "))
			}
		}(w)
	}
	wg.Wait()
	chk.Set("evaluations", st.histories.Load()+st.crashImages.Load())
	chk.Set("histories", st.histories.Load())
	chk.Set("operations", st.ops.Load())
	chk.Set("crash_images", st.crashImages.Load())
	chk.Set("depth", depth)
	chk.Set("histories_in_space", len(hists))
	chk.Set("time_budget_hit", timedOut.Load())
	chk.Set("exhaustive", chk.Violations() == 0 && !timedOut.Load())
	chk.Set("rule", "all operation sequences over {append small (epoch 0,1,2; thorough also 3), append 600 KiB (epoch 2), append of an entry that fails to encode part-way, rotate, close, purge(2), purge(3), reopen} up to the depth, plus three long rotating histories, on the real WriteAheadLog in /dev/shm; All() is compared with the reference list of acknowledged, unpurged entries after every step (set equality, per-file order, purge conservative and complete by directory listing); for every history ending in an append, every byte offset of that append (big entries: quick first/last 32 offsets and 8 evenly spaced; thorough first/last 1024 and every 40009th) is materialised as a torn file, recovered, read, continued (append, reopen, append, purge, reopen) and compared again")
	_ = os.RemoveAll(root)
	chk.Assume("a crash tears only the final write; directory entries of created files survive; file names (wall clock) are opaque and cross-file order is not asserted")
	chk.Finish()
}
