// Package vfix holds fixtures shared by the /verif harnesses: deterministic keys (the repository's fake
// signing backend), power tables, chains, justifications and honestly generated certificate chains.
package vfix

import (
	"bytes"
	"context"
	"crypto/sha256"
	"fmt"
	"sort"

	"github.com/filecoin-project/go-bitfield"
	rlepluslazy "github.com/filecoin-project/go-bitfield/rle"
	"github.com/filecoin-project/go-f3/certs"
	"github.com/filecoin-project/go-f3/gpbft"
	"github.com/filecoin-project/go-f3/sim/signing"
	"github.com/filecoin-project/go-state-types/big"
	"github.com/ipfs/go-cid"
)

const Network = gpbft.NetworkName("verif-net")

// Keys wraps the fake backend; key k belongs to "key index" k (independent of actor ids so that actors
// can be re-keyed).
type Keys struct{ *signing.FakeBackend }

func NewKeys(n int) Keys {
	b := signing.NewFakeBackend()
	for i := 0; i < n; i++ {
		b.Allow(i)
	}
	return Keys{b}
}

func (k Keys) Pub(i int) gpbft.PubKey { return k.Allow(i) }

// Aggregate overrides the fake backend's: aggregates are bound to the complete key set (see KeySetBound).
func (k Keys) Aggregate(pks []gpbft.PubKey) (gpbft.Aggregate, error) {
	return KeySetBound{Inner: k.FakeBackend}.Aggregate(pks)
}

func BigPow(s string) gpbft.StoragePower {
	v, err := big.FromString(s)
	if err != nil {
		panic(err)
	}
	return v
}

// Entry builds a power entry for actor id with key index = keyIdx.
func (k Keys) Entry(id uint64, power gpbft.StoragePower, keyIdx int) gpbft.PowerEntry {
	return gpbft.PowerEntry{ID: gpbft.ActorID(id), Power: power, PubKey: k.Pub(keyIdx)}
}

// Canon returns the entries sorted canonically (power desc, id asc) as a fresh slice.
func Canon(e gpbft.PowerEntries) gpbft.PowerEntries {
	out := make(gpbft.PowerEntries, len(e))
	copy(out, e)
	sort.Sort(out)
	return out
}

func CloneEntries(e gpbft.PowerEntries) gpbft.PowerEntries {
	out := make(gpbft.PowerEntries, len(e))
	for i := range e {
		out[i] = gpbft.PowerEntry{ID: e[i].ID, Power: big.NewFromGo(e[i].Power.Int), PubKey: append(gpbft.PubKey{}, e[i].PubKey...)}
	}
	return out
}

func TableCID(e gpbft.PowerEntries) cid.Cid {
	c, err := certs.MakePowerTableCID(e)
	if err != nil {
		panic(err)
	}
	return c
}

func PowerTable(e gpbft.PowerEntries) *gpbft.PowerTable {
	pt := gpbft.NewPowerTable()
	if err := pt.Add(e...); err != nil {
		panic(err)
	}
	return pt
}

// TipSet builds a deterministic tipset for branch br at epoch e.
func TipSet(br string, e int64, pt cid.Cid) *gpbft.TipSet {
	return &gpbft.TipSet{Epoch: e, Key: []byte(fmt.Sprintf("%s-%d", br, e)), PowerTable: pt}
}

// Chain builds base + n tipsets of branch br starting at epoch base.Epoch+1.
func Chain(base *gpbft.TipSet, br string, n int, pt cid.Cid) *gpbft.ECChain {
	ts := []*gpbft.TipSet{base}
	for i := 1; i <= n; i++ {
		ts = append(ts, TipSet(br, base.Epoch+int64(i), pt))
	}
	return &gpbft.ECChain{TipSets: ts}
}

func Bitfield(idx []int) bitfield.BitField {
	u := make([]uint64, len(idx))
	for i, x := range idx {
		u[i] = uint64(x)
	}
	sort.Slice(u, func(a, b int) bool { return u[a] < u[b] })
	ri, _ := rlepluslazy.RunsFromSlice(u)
	bf, _ := bitfield.NewFromIter(ri)
	return bf
}

// Justify builds a justification over payload signed by the table entries at the given (canonical)
// indices; table must be in canonical order.
func (k Keys) Justify(nn gpbft.NetworkName, table gpbft.PowerEntries, payload gpbft.Payload, idx []int) *gpbft.Justification {
	idx = append([]int{}, idx...)
	sort.Ints(idx)
	msg := payload.MarshalForSigning(nn)
	sigs := make([][]byte, len(idx))
	for n, i := range idx {
		s, err := k.Sign(context.Background(), table[i].PubKey, msg)
		if err != nil {
			panic(err)
		}
		sigs[n] = s
	}
	agg, err := k.Aggregate(table.PublicKeys())
	if err != nil {
		panic(err)
	}
	a, err := agg.Aggregate(idx, sigs)
	if err != nil {
		panic(err)
	}
	return &gpbft.Justification{Vote: payload, Signers: Bitfield(idx), Signature: a}
}

// MinimalQuorum returns the indices of the shortest canonical prefix of table forming a strong quorum.
func MinimalQuorum(table gpbft.PowerEntries) []int {
	scaled, total, err := table.Scaled()
	if err != nil {
		panic(err)
	}
	var idx []int
	var p int64
	for i := range table {
		if scaled[i] == 0 {
			continue
		}
		idx = append(idx, i)
		p += scaled[i]
		if 3*p >= 2*total {
			return idx
		}
	}
	return idx
}

// Cert builds the honest finality certificate for instance inst deciding chain under table cur with next
// table next (both canonical), signed by the canonical indices idx of cur.
func (k Keys) Cert(nn gpbft.NetworkName, inst uint64, chain *gpbft.ECChain, cur, next gpbft.PowerEntries, idx []int) *certs.FinalityCertificate {
	supp := gpbft.SupplementalData{PowerTable: TableCID(next)}
	payload := gpbft.Payload{Instance: inst, Round: 0, Phase: gpbft.DECIDE_PHASE, SupplementalData: supp, Value: chain}
	j := k.Justify(nn, cur, payload, idx)
	c, err := certs.NewFinalityCertificate(certs.MakePowerTableDiff(cur, next), j)
	if err != nil {
		panic(err)
	}
	return c
}

// KeySetBound wraps the repository's fake signing scheme so that, like BLS with BDN coefficients, an
// aggregate is bound to the COMPLETE key set it was created over (not only to the signers): two parties that
// aggregate / verify over different key sets disagree.  The plain fake backend lacks this property.
type KeySetBound struct {
	Inner interface {
		gpbft.Verifier
		gpbft.Signer
	}
}

func (k KeySetBound) Sign(ctx context.Context, pk gpbft.PubKey, msg []byte) ([]byte, error) {
	return k.Inner.Sign(ctx, pk, msg)
}

func (k KeySetBound) Verify(pk gpbft.PubKey, msg, sig []byte) error { return k.Inner.Verify(pk, msg, sig) }

func (k KeySetBound) Aggregate(pks []gpbft.PubKey) (gpbft.Aggregate, error) {
	inner, err := k.Inner.Aggregate(pks)
	if err != nil {
		return nil, err
	}
	h := sha256.New()
	for _, p := range pks {
		h.Write(p)
		h.Write([]byte{0})
	}
	return &keySetAgg{k: k, inner: inner, salt: h.Sum(nil), pks: pks}, nil
}

type keySetAgg struct {
	k     KeySetBound
	inner gpbft.Aggregate
	salt  []byte
	pks   []gpbft.PubKey
}

func (a *keySetAgg) mix(sig []byte) []byte {
	h := sha256.New()
	h.Write(a.salt)
	h.Write(sig)
	return h.Sum(nil)
}

func (a *keySetAgg) Aggregate(mask []int, sigs [][]byte) ([]byte, error) {
	s, err := a.inner.Aggregate(mask, sigs)
	if err != nil {
		return nil, err
	}
	return a.mix(s), nil
}

func (a *keySetAgg) VerifyAggregate(mask []int, payload, aggSig []byte) error {
	// the fake scheme is deterministic: recompute what the signers would have produced over this key set
	sigs := make([][]byte, len(mask))
	for i, m := range mask {
		if m < 0 || m >= len(a.pks) {
			return fmt.Errorf("signer %d out of range", m)
		}
		s, err := a.k.Inner.Sign(context.Background(), a.pks[m], payload)
		if err != nil {
			return err
		}
		sigs[i] = s
	}
	want, err := a.inner.Aggregate(mask, sigs)
	if err != nil {
		return err
	}
	if !bytes.Equal(a.mix(want), aggSig) {
		return fmt.Errorf("aggregate signature is not valid for this key set")
	}
	return nil
}
