// Package vsched is the cooperative scheduler of engine E2: real goroutines, exactly one runnable at a
// time; instrumented code calls Point() before every statement and the vsync shims call Acquire/Release
// for locks, so that blocking is visible to the scheduler.  Exploration is a DFS over choice sequences
// with preemption bounding (Musuvathi/Qadeer); every schedule can be replayed from its choice list.
//
// When no exploration is active (Active() == false) every hook is a no-op / delegates to the real
// primitive, so instrumented packages behave normally in all other harnesses.
package vsched

import (
	"fmt"
	"runtime"
	"sync"
	"sync/atomic"
	"time"
)

type thread struct {
	id       int
	name     string
	wake     chan struct{}
	done     bool
	blocked  *Lock // waiting for this lock
	wantRead bool
	points   int
	where    string
	panicked any
}

// Lock is the scheduler-side state of one mutex / rwmutex.
type Lock struct {
	writer  *thread
	readers map[*thread]int
}

type Run struct {
	threads  []*thread
	cur      *thread
	yield    chan *thread // thread -> scheduler: "I am at a point / done / blocked"
	choices  []int        // choices made so far (index into the enabled list)
	prefix   []int        // choices to replay
	enabledN []int        // number of enabled threads at each choice point
	runStill []bool       // whether the previously running thread was still enabled at each point
	preempt  int
	Trace    []string
	deadlock string
	stalled  string
	steps    int
	horizon  int
}

var Debug bool

var (
	active atomic.Pointer[Run]
	gidMu  sync.Mutex
	byGID  = map[uint64]*thread{}
)

// Active reports whether a controlled execution is in progress in this process.
func Active() bool { return active.Load() != nil }

func goid() uint64 {
	var buf [64]byte
	n := runtime.Stack(buf[:], false)
	// "goroutine 123 [running]:"
	var id uint64
	for _, c := range buf[10:n] {
		if c < '0' || c > '9' {
			break
		}
		id = id*10 + uint64(c-'0')
	}
	return id
}

func self() *thread {
	gidMu.Lock()
	defer gidMu.Unlock()
	return byGID[goid()]
}

// Point is a scheduling point: the calling controlled thread hands control back to the scheduler and
// resumes when chosen again.  Calls from uncontrolled goroutines (or outside an exploration) return at once.
func Point(where string) {
	r := active.Load()
	if r == nil {
		return
	}
	t := self()
	if t == nil {
		return
	}
	t.points++
	t.where = where
	r.yield <- t
	<-t.wake
}

// Acquire blocks (visibly to the scheduler) until the lock can be taken.
func Acquire(l *Lock, read bool) bool {
	r := active.Load()
	t := (*thread)(nil)
	if r != nil {
		t = self()
	}
	if t == nil {
		return false // not controlled: caller must use the real primitive
	}
	for {
		if l.readers == nil {
			l.readers = map[*thread]int{}
		}
		free := l.writer == nil && (read || len(l.readers) == 0)
		if free {
			if read {
				l.readers[t]++
			} else {
				l.writer = t
			}
			return true
		}
		t.blocked, t.wantRead = l, read
		r.yield <- t
		<-t.wake
		t.blocked = nil
	}
}

// TryAcquire never blocks.
func TryAcquire(l *Lock, read bool) (controlled, ok bool) {
	r := active.Load()
	if r == nil {
		return false, false
	}
	t := self()
	if t == nil {
		return false, false
	}
	if l.readers == nil {
		l.readers = map[*thread]int{}
	}
	if l.writer == nil && (read || len(l.readers) == 0) {
		if read {
			l.readers[t]++
		} else {
			l.writer = t
		}
		return true, true
	}
	return true, false
}

func Release(l *Lock, read bool) bool {
	r := active.Load()
	if r == nil {
		return false
	}
	t := self()
	if t == nil {
		return false
	}
	if read {
		if l.readers[t] > 0 {
			l.readers[t]--
			if l.readers[t] == 0 {
				delete(l.readers, t)
			}
		}
	} else {
		l.writer = nil
	}
	return true
}

func (t *thread) enabled() bool {
	if t.done {
		return false
	}
	if l := t.blocked; l != nil {
		return l.writer == nil && (t.wantRead || len(l.readers) == 0)
	}
	return true
}

// Result of one controlled execution.
type Result struct {
	Choices  []int
	Trace    []string
	Deadlock string // non-empty: unfinished threads, none enabled
	Stalled  string // non-empty: the running thread did not reach a scheduling point (blocked on an un-hooked primitive)
	Panics   []string
	Steps    int
	Preempt  int
	EnabledN []int
	RunStill []bool
	Horizon  bool
}

// Execute runs the thread bodies under the schedule given by prefix (then always choice 0).
// Canonical order of the enabled list: the running thread first if still enabled, then ascending ids.
func Execute(names []string, bodies []func(), prefix []int, horizon int, stallTimeout time.Duration) Result {
	r := &Run{yield: make(chan *thread), prefix: prefix, horizon: horizon}
	for i, b := range bodies {
		t := &thread{id: i, name: names[i], wake: make(chan struct{})}
		r.threads = append(r.threads, t)
		b := b
		started := make(chan struct{})
		go func() {
			gidMu.Lock()
			byGID[goid()] = t
			gidMu.Unlock()
			close(started)
			<-t.wake // wait to be scheduled for the first time
			defer func() {
				if p := recover(); p != nil {
					t.panicked = p
				}
				t.done = true
				gidMu.Lock()
				delete(byGID, goid())
				gidMu.Unlock()
				r.yield <- t
			}()
			b()
		}()
		<-started
	}
	active.Store(r)
	defer active.Store(nil)
	res := Result{}
	var running *thread
	for {
		var en []*thread
		stillEnabled := running != nil && running.enabled()
		if stillEnabled {
			en = append(en, running)
		}
		for _, t := range r.threads {
			if t != running && t.enabled() {
				en = append(en, t)
			}
		}
		if len(en) == 0 {
			unfinished := ""
			for _, t := range r.threads {
				if !t.done {
					unfinished += t.name + " "
				}
			}
			if unfinished != "" {
				res.Deadlock = "no enabled thread; unfinished: " + unfinished
			}
			break
		}
		if r.steps >= r.horizon {
			res.Horizon = true
			break
		}
		c := 0
		if len(en) > 1 {
			if i := len(r.choices); i < len(r.prefix) {
				c = r.prefix[i]
				if c >= len(en) {
					panic(fmt.Sprintf("vsched: replay divergence: choice %d of %d at point %d", c, len(en), i))
				}
			}
			r.choices = append(r.choices, c)
			r.enabledN = append(r.enabledN, len(en))
			r.runStill = append(r.runStill, stillEnabled)
			if stillEnabled && c != 0 {
				r.preempt++
			}
		} else {
			c = 0
		}
		next := en[c]
		if next != running {
			r.Trace = append(r.Trace, next.name)
		}
		if Debug {
			fmt.Printf("step %d choice#%d en=%d run %s at %s\n", r.steps, len(r.choices), len(en), next.name, next.where)
		}
		running = next
		r.steps++
		next.wake <- struct{}{}
		select {
		case <-r.yield:
		case <-time.After(stallTimeout):
			res.Stalled = fmt.Sprintf("thread %s did not reach a scheduling point within %v (blocked on a primitive the scheduler does not control)", next.name, stallTimeout)
		}
		if res.Stalled != "" {
			break
		}
	}
	for _, t := range r.threads {
		if t.panicked != nil {
			res.Panics = append(res.Panics, fmt.Sprintf("%s: %v", t.name, t.panicked))
		}
	}
	res.Choices, res.Trace, res.Steps, res.Preempt, res.EnabledN, res.RunStill = r.choices, r.Trace, r.steps, r.preempt, r.enabledN, r.runStill
	return res
}

// Explore enumerates all schedules with at most maxPreempt preemptions (bound iterated 0..maxPreempt),
// calling mk() for a fresh set of thread bodies and check(res) after every execution.  check returns
// false to stop.  Returns executions run and whether the space was covered completely.
func Explore(names []string, mk func() []func(), maxPreempt, horizon int, limit int64, check func(Result) bool) (execs int64, complete bool) {
	complete = true
	type item struct{ prefix []int }
	for bound := 0; bound <= maxPreempt; bound++ {
		stack := []item{{nil}}
		for len(stack) > 0 {
			it := stack[len(stack)-1]
			stack = stack[:len(stack)-1]
			res := Execute(names, mk(), it.prefix, horizon, 90*time.Second)
			execs++
			if bound == 0 || res.Preempt == bound {
				if !check(res) {
					return execs, false
				}
			}
			if res.Stalled != "" || res.Deadlock != "" {
				// a stalled execution leaves goroutines behind; its subtree is not explored further
				if res.Preempt != bound {
					if !check(res) {
						return execs, false
					}
				}
				continue
			}
			if limit > 0 && execs >= limit {
				return execs, false
			}
			// children: deviate at every choice point after the prefix
			pre := 0
			for i := 0; i < len(res.Choices); i++ {
				if i >= len(it.prefix) {
					for alt := 1; alt < res.EnabledN[i]; alt++ {
						cost := pre
						if res.RunStill[i] {
							cost++
						}
						if cost > bound {
							continue
						}
						child := append(append([]int{}, res.Choices[:i]...), alt)
						stack = append(stack, item{child})
					}
				}
				if res.RunStill[i] && res.Choices[i] != 0 {
					pre++
				}
			}
		}
	}
	return execs, complete
}
