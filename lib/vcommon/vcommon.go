// Package vcommon is the shared plumbing of the /verif harnesses: tier/seed handling, evidence files,
// violation reporting with replay artefacts, and the known-findings list.
//
// It is injected into the go-f3 module at build time (go build -overlay) as
// github.com/filecoin-project/go-f3/internal/verif/vcommon; nothing of it is committed to /repo.
package vcommon

import (
	"bufio"
	"crypto/sha256"
	"encoding/hex"
	"encoding/json"
	"fmt"
	"os"
	"path/filepath"
	"sort"
	"strconv"
	"strings"
	"sync"
	"time"
)

// Dir is the root of the verification tree (default /verif).
func Dir() string {
	if d := os.Getenv("VERIF_DIR"); d != "" {
		return d
	}
	return "/verif"
}

// Tier returns "quick" or "thorough" (VERIF_TIER, default quick).
func Tier() string {
	if t := os.Getenv("VERIF_TIER"); t == "thorough" {
		return "thorough"
	}
	return "quick"
}

func Thorough() bool { return Tier() == "thorough" }

// Seed returns VERIF_SEED (default 0).  Checks are deterministic; the seed only rotates which scenario of
// a matrix gets the deepest bound.
func Seed() int64 {
	s, _ := strconv.ParseInt(os.Getenv("VERIF_SEED"), 10, 64)
	return s
}

type finding struct {
	Property    string `json:"property"`
	Fingerprint string `json:"fingerprint"`
	Status      string `json:"status"` // "known" or "fixed"
	What        string `json:"what"`
	Commit      string `json:"commit,omitempty"`
}

// Check collects what one run of one property check covered and found.
type Check struct {
	Property string
	Level    string // exploration | fault_enumeration | model_checking
	start    time.Time

	mu         sync.Mutex
	coverage   map[string]any
	samples    []any
	assume     []string
	violations map[string]string // fingerprint -> replay path (unlisted only)
	known      map[string]string // fingerprint -> what (listed and observed)
	findings   []finding
	distinct   map[string]struct{}
}

func NewCheck(property, level string) *Check {
	c := &Check{
		Property:   property,
		Level:      level,
		start:      time.Now(),
		coverage:   map[string]any{},
		violations: map[string]string{},
		known:      map[string]string{},
		distinct:   map[string]struct{}{},
	}
	c.loadFindings()
	_ = os.MkdirAll(EvidenceDir(), 0o755)
	// Remove a stale evidence file first: if this run dies, no evidence must remain.
	_ = os.Remove(c.evidencePath())
	return c
}

// EvidenceDir is /verif/evidence unless VERIF_EVIDENCE_DIR overrides it (used when a check is run against a
// deliberately broken tree, so that committed evidence of the real tree is not clobbered).
func EvidenceDir() string {
	if d := os.Getenv("VERIF_EVIDENCE_DIR"); d != "" {
		return d
	}
	return filepath.Join(Dir(), "evidence")
}

func (c *Check) evidencePath() string {
	return filepath.Join(EvidenceDir(), c.Property+".json")
}

func (c *Check) loadFindings() {
	f, err := os.Open(filepath.Join(Dir(), "known_findings.jsonl"))
	if err != nil {
		return
	}
	defer f.Close()
	sc := bufio.NewScanner(f)
	sc.Buffer(make([]byte, 1<<20), 1<<20)
	for sc.Scan() {
		line := strings.TrimSpace(sc.Text())
		if line == "" || strings.HasPrefix(line, "#") {
			continue
		}
		var fd finding
		if json.Unmarshal([]byte(line), &fd) == nil {
			c.findings = append(c.findings, fd)
		}
	}
}

// Set records a coverage key (states, transitions, evaluations, ...).
func (c *Check) Set(key string, v any) {
	c.mu.Lock()
	defer c.mu.Unlock()
	c.coverage[key] = v
}

// Add adds n to an integer coverage counter.
func (c *Check) Add(key string, n int64) {
	c.mu.Lock()
	defer c.mu.Unlock()
	cur, _ := c.coverage[key].(int64)
	c.coverage[key] = cur + n
}

func (c *Check) Get(key string) int64 {
	c.mu.Lock()
	defer c.mu.Unlock()
	cur, _ := c.coverage[key].(int64)
	return cur
}

// Sample stores an example case (kept to at most max samples).
func (c *Check) Sample(v any) {
	c.mu.Lock()
	defer c.mu.Unlock()
	if len(c.samples) < 12 {
		c.samples = append(c.samples, v)
	}
}

// Distinct records a distinct non-trivial case / observed outcome by its canonical string.
func (c *Check) Distinct(k string) {
	h := sha256.Sum256([]byte(k))
	c.mu.Lock()
	defer c.mu.Unlock()
	c.distinct[string(h[:12])] = struct{}{}
}

func (c *Check) DistinctCount() int {
	c.mu.Lock()
	defer c.mu.Unlock()
	return len(c.distinct)
}

func (c *Check) Assume(s string) {
	c.mu.Lock()
	defer c.mu.Unlock()
	c.assume = append(c.assume, s)
}

// Fingerprint shortens an arbitrary description to a stable id usable in a file name.
func Fingerprint(parts ...string) string {
	h := sha256.Sum256([]byte(strings.Join(parts, "\x00")))
	return hex.EncodeToString(h[:6])
}

// Violation reports a property violation.  fingerprint identifies the failing call site / input class /
// history; if known_findings.jsonl lists it with status "known" for this property the violation is
// reported as KNOWN-FINDING (once) and does not fail the check.  replay is serialised as the replay
// artefact.  Returns true if the violation is new (not a listed finding).
func (c *Check) Violation(fingerprint, what string, replay any) bool {
	c.mu.Lock()
	defer c.mu.Unlock()
	for _, fd := range c.findings {
		if fd.Property == c.Property && fd.Fingerprint == fingerprint && fd.Status == "known" {
			if _, seen := c.known[fingerprint]; !seen {
				c.known[fingerprint] = what
				fmt.Printf("KNOWN-FINDING: property=%s %s: %s\n", c.Property, fingerprint, fd.What)
			}
			return false
		}
	}
	if _, seen := c.violations[fingerprint]; seen {
		return true
	}
	dir := filepath.Join(Dir(), "replays")
	if d := os.Getenv("VERIF_EVIDENCE_DIR"); d != "" {
		dir = filepath.Join(d, "replays")
	}
	_ = os.MkdirAll(dir, 0o755)
	safe := strings.Map(func(r rune) rune {
		if r >= 'a' && r <= 'z' || r >= 'A' && r <= 'Z' || r >= '0' && r <= '9' || r == '-' || r == '_' || r == '.' {
			return r
		}
		return '_'
	}, fingerprint)
	if len(safe) > 80 {
		safe = safe[:60] + "-" + Fingerprint(fingerprint)
	}
	path := filepath.Join(dir, c.Property+"-"+safe+".json")
	body, err := json.MarshalIndent(map[string]any{
		"property":    c.Property,
		"fingerprint": fingerprint,
		"what":        what,
		"replay":      replay,
	}, "", " ")
	if err != nil {
		body = []byte(fmt.Sprintf("{\"property\":%q,\"fingerprint\":%q,\"what\":%q}", c.Property, fingerprint, what))
	}
	_ = os.WriteFile(path, body, 0o644)
	c.violations[fingerprint] = path
	fmt.Printf("VIOLATION property=%s replay=%s\n", c.Property, path)
	fmt.Printf("  fingerprint=%s\n  %s\n", fingerprint, what)
	return true
}

// Violations returns the number of unlisted violations so far.
func (c *Check) Violations() int {
	c.mu.Lock()
	defer c.mu.Unlock()
	return len(c.violations)
}

// Finish writes the evidence file and exits: 0 if no unlisted violation, 1 otherwise.
func (c *Check) Finish() {
	concViolations := 0
	c.mu.Lock()
	cov := map[string]any{}
	for k, v := range c.coverage {
		cov[k] = v
	}
	if _, ok := cov["samples"]; !ok {
		s := c.samples
		if len(s) == 0 {
			s = []any{"(no sample recorded)"}
		}
		cov["samples"] = s
	}
	if _, ok := cov["distinct_nontrivial"]; !ok {
		cov["distinct_nontrivial"] = len(c.distinct)
	}
	// fold in the result of the interleaving exploration (engine E2) that ran just before this harness
	if raw, err := os.ReadFile(ConcSide(c.Property)); err == nil {
		var conc map[string]any
		if json.Unmarshal(raw, &conc) == nil {
			cov["concurrency"] = conc
			if v, ok := conc["violations"].(float64); ok && v > 0 {
				concViolations = int(v) // reported (VIOLATION line, replay file) by the interleaving explorer itself
			}
		}
	}
	// fold in the results of auxiliary passes of the same ./check invocation (VERIF_SIDE=<name> runs)
	sideViolations := 0
	if d := os.Getenv("VERIF_RUN_DIR"); d != "" && os.Getenv("VERIF_SIDE") == "" {
		if names, _ := filepath.Glob(filepath.Join(d, "side-"+c.Property+"-*.json")); len(names) > 0 {
			sort.Strings(names)
			for _, n := range names {
				raw, err := os.ReadFile(n)
				if err != nil {
					continue
				}
				var side map[string]any
				if json.Unmarshal(raw, &side) != nil {
					continue
				}
				name := strings.TrimSuffix(strings.TrimPrefix(filepath.Base(n), "side-"+c.Property+"-"), ".json")
				cov["pass_"+name] = side["coverage"]
				if v, ok := side["violations"].(float64); ok {
					sideViolations += int(v)
				}
				if as, ok := side["assumptions"].([]any); ok {
					for _, a := range as {
						c.assume = append(c.assume, fmt.Sprintf("[%s] %v", name, a))
					}
				}
			}
		}
	}
	concViolations += sideViolations
	knownList := make([]string, 0, len(c.known))
	for k := range c.known {
		knownList = append(knownList, k)
	}
	sort.Strings(knownList)
	if len(knownList) > 0 {
		cov["known_findings_observed"] = knownList
	}
	// fixed entries are informational only
	ev := map[string]any{
		"property_id": c.Property,
		"tier":        Tier(),
		"seed":        Seed(),
		"level":       c.Level,
		"coverage":    cov,
		"assumptions": append([]string{}, c.assume...),
		"wall_s":      time.Since(c.start).Seconds(),
		"violations":  len(c.violations) + concViolations,
	}
	nviol := len(c.violations) + concViolations
	c.mu.Unlock()
	body, err := json.MarshalIndent(ev, "", " ")
	if err != nil {
		fmt.Fprintf(os.Stderr, "evidence marshal: %v\n", err)
		os.Exit(2)
	}
	if side := os.Getenv("VERIF_SIDE"); side != "" && os.Getenv("VERIF_RUN_DIR") != "" {
		// auxiliary pass: leave the result for the main harness of this invocation, which writes the evidence file
		out := filepath.Join(os.Getenv("VERIF_RUN_DIR"), "side-"+c.Property+"-"+side+".json")
		if err := os.WriteFile(out, body, 0o644); err != nil {
			fmt.Fprintf(os.Stderr, "side result write: %v\n", err)
			os.Exit(2)
		}
		fmt.Printf("%s %s [%s pass]: %d violation(s), %.1fs\n", c.Property, Tier(), side, nviol, time.Since(c.start).Seconds())
		if nviol > 0 {
			os.Exit(1)
		}
		os.Exit(0)
	}
	tmp := c.evidencePath() + ".tmp"
	if err := os.WriteFile(tmp, body, 0o644); err != nil {
		fmt.Fprintf(os.Stderr, "evidence write: %v\n", err)
		os.Exit(2)
	}
	_ = os.Rename(tmp, c.evidencePath())
	fmt.Printf("%s %s: %d violation(s), %d known finding(s) observed, %.1fs; evidence %s\n",
		c.Property, Tier(), nviol, len(knownList), time.Since(c.start).Seconds(), c.evidencePath())
	if nviol > 0 {
		os.Exit(1)
	}
	os.Exit(0)
}

// Deadline returns a wall-clock budget helper: Expired() turns true after d; a run that stops on it must
// report exhaustive=false (time is never an oracle).
type Deadline struct{ t time.Time }

func NewDeadline(d time.Duration) Deadline { return Deadline{time.Now().Add(d)} }
func (d Deadline) Expired() bool          { return time.Now().After(d.t) }

// ConcSide is where engine E2 (concmc) leaves its result for the main harness of the same ./check invocation;
// the directory is private to the invocation (VERIF_RUN_DIR), so concurrent invocations cannot mix results.
func ConcSide(prop string) string {
	d := os.Getenv("VERIF_RUN_DIR")
	if d == "" {
		d = filepath.Join(Dir(), ".work")
	}
	return filepath.Join(d, "conc-"+prop+".json")
}

// ShmDir names a scratch directory on /dev/shm for this harness run. The name carries the ./check invocation's tag
// (VERIF_RUN_TAG) so that the invocation can remove it even if the harness is killed.
func ShmDir(kind string) string {
	tag := os.Getenv("VERIF_RUN_TAG")
	if tag == "" {
		tag = "p"
	}
	return fmt.Sprintf("/dev/shm/verif-%s-%s-%d", kind, tag, os.Getpid())
}
