// Package vsync mirrors the parts of package sync that the E2 targets use.  Under a controlled execution
// (vsched.Active and the caller is a controlled thread) lock operations go through the cooperative
// scheduler, so that a blocked thread is visible as "not enabled"; otherwise they are the real primitives.
package vsync

import (
	"sync"

	"github.com/filecoin-project/go-f3/internal/verif/vsched"
)

type (
	Pool      = sync.Pool
	Once      = sync.Once
	WaitGroup = sync.WaitGroup
	Map       = sync.Map
	Locker    = sync.Locker
)

type Mutex struct {
	real sync.Mutex
	l    vsched.Lock
}

func (m *Mutex) Lock() {
	if !vsched.Acquire(&m.l, false) {
		m.real.Lock()
	}
}

func (m *Mutex) Unlock() {
	if !vsched.Release(&m.l, false) {
		m.real.Unlock()
	}
}

func (m *Mutex) TryLock() bool {
	if controlled, ok := vsched.TryAcquire(&m.l, false); controlled {
		return ok
	}
	return m.real.TryLock()
}

type RWMutex struct {
	real sync.RWMutex
	l    vsched.Lock
}

func (m *RWMutex) Lock() {
	if !vsched.Acquire(&m.l, false) {
		m.real.Lock()
	}
}
func (m *RWMutex) Unlock() {
	if !vsched.Release(&m.l, false) {
		m.real.Unlock()
	}
}
func (m *RWMutex) RLock() {
	if !vsched.Acquire(&m.l, true) {
		m.real.RLock()
	}
}
func (m *RWMutex) RUnlock() {
	if !vsched.Release(&m.l, true) {
		m.real.RUnlock()
	}
}
func (m *RWMutex) TryLock() bool {
	if controlled, ok := vsched.TryAcquire(&m.l, false); controlled {
		return ok
	}
	return m.real.TryLock()
}
func (m *RWMutex) TryRLock() bool {
	if controlled, ok := vsched.TryAcquire(&m.l, true); controlled {
		return ok
	}
	return m.real.TryRLock()
}
