// Package vnet: in-process libp2p plumbing for the /verif harnesses (mocknet hosts, a scriptable raw
// certificate-exchange responder, a raw requester that reads everything a server puts on the wire).
package vnet

import (
	"bufio"
	"bytes"
	"context"
	"io"
	"sync"
	"time"

	"github.com/filecoin-project/go-f3/certexchange"
	"github.com/filecoin-project/go-f3/certs"
	"github.com/filecoin-project/go-f3/gpbft"
	"github.com/libp2p/go-libp2p/core/host"
	"github.com/libp2p/go-libp2p/core/network"
	"github.com/libp2p/go-libp2p/core/peer"
	mocknet "github.com/libp2p/go-libp2p/p2p/net/mock"
)

// Net is a fully linked and connected mocknet with n hosts.
func Net(n int) (mocknet.Mocknet, []host.Host) {
	mn := mocknet.New()
	hs := make([]host.Host, n)
	for i := range hs {
		h, err := mn.GenPeer()
		if err != nil {
			panic(err)
		}
		hs[i] = h
	}
	if err := mn.LinkAll(); err != nil {
		panic(err)
	}
	if err := mn.ConnectAllButSelf(); err != nil {
		panic(err)
	}
	return mn, hs
}

// Reply is what a scripted responder sends for one request.
type Reply struct {
	Pending    uint64
	PowerTable gpbft.PowerEntries
	Blobs      [][]byte // CBOR certificates, written in this order
	CutLast    int      // >0: the last blob is cut to this many bytes and the stream is reset
	Reset      bool     // reset the stream instead of answering
	Before     func()   // called before answering (e.g. to advance a mock clock = request time)
}

// Responder is a raw certificate-exchange server whose answers are decided by Answer.
type Responder struct {
	Host   host.Host
	NN     gpbft.NetworkName
	Answer func(req certexchange.Request) Reply

	mu       sync.Mutex
	Requests []certexchange.Request
}

func (r *Responder) Start() {
	r.Host.SetStreamHandler(certexchange.FetchProtocolName(r.NN), func(s network.Stream) {
		var req certexchange.Request
		if err := req.UnmarshalCBOR(bufio.NewReader(s)); err != nil {
			_ = s.Reset()
			return
		}
		r.mu.Lock()
		r.Requests = append(r.Requests, req)
		r.mu.Unlock()
		rep := r.Answer(req)
		if rep.Before != nil {
			rep.Before()
		}
		if rep.Reset {
			_ = s.Reset()
			return
		}
		bw := bufio.NewWriter(s)
		hdr := certexchange.ResponseHeader{PendingInstance: rep.Pending, PowerTable: rep.PowerTable}
		if err := hdr.MarshalCBOR(bw); err != nil {
			_ = s.Reset()
			return
		}
		for i, b := range rep.Blobs {
			if rep.CutLast > 0 && i == len(rep.Blobs)-1 {
				_, _ = bw.Write(b[:min(rep.CutLast, len(b))])
				_ = bw.Flush()
				_ = s.Reset()
				return
			}
			_, _ = bw.Write(b)
		}
		_ = bw.Flush()
		_ = s.Close()
	})
}

func (r *Responder) NumRequests() int {
	r.mu.Lock()
	defer r.mu.Unlock()
	return len(r.Requests)
}

// RawRequest sends req to p and returns the header and EVERY certificate the server writes (the
// production client stops reading after req.Limit certificates).
func RawRequest(ctx context.Context, h host.Host, nn gpbft.NetworkName, p peer.ID, req certexchange.Request) (*certexchange.ResponseHeader, []*certs.FinalityCertificate, [][]byte, error) {
	ctx, cancel := context.WithTimeout(ctx, 20*time.Second)
	defer cancel()
	s, err := h.NewStream(ctx, p, certexchange.FetchProtocolName(nn))
	if err != nil {
		return nil, nil, nil, err
	}
	defer s.Reset()
	bw := bufio.NewWriter(s)
	if err := req.MarshalCBOR(bw); err != nil {
		return nil, nil, nil, err
	}
	if err := bw.Flush(); err != nil {
		return nil, nil, nil, err
	}
	if err := s.CloseWrite(); err != nil {
		return nil, nil, nil, err
	}
	all, err := io.ReadAll(s)
	if err != nil {
		return nil, nil, nil, err
	}
	rd := bytes.NewReader(all)
	var hdr certexchange.ResponseHeader
	if err := hdr.UnmarshalCBOR(rd); err != nil {
		return nil, nil, nil, err
	}
	var out []*certs.FinalityCertificate
	var blobs [][]byte
	for rd.Len() > 0 {
		start := len(all) - rd.Len()
		c := new(certs.FinalityCertificate)
		if err := c.UnmarshalCBOR(rd); err != nil {
			return &hdr, out, blobs, err
		}
		out = append(out, c)
		blobs = append(blobs, all[start:len(all)-rd.Len()])
	}
	return &hdr, out, blobs, nil
}
